#!/bin/bash
# round_phase.sh <1|2> <root dir of worktrees> <label prefix> <property>...: PHASE 1 (confirmation in the scratch
# worktree; one worktree at a time per call, several calls may run in parallel) or PHASE 2 (checks against /repo; serial)
ph="$1"; root="$2"; pre="$3"; shift 3
for id in "$@"; do
  for d in "$root/$id"/OUT/*/patch.diff; do
    [ -f "$d" ] || continue
    x=$(basename "$(dirname "$d")")
    [ -f "$(dirname "$d")/demo.rs" ] || continue
    [ "$ph" = 1 ] && [ -f "/verif/seeded/$id-$pre$x/phase1.txt" ] && continue
    [ "$ph" = 2 ] && [ -f "/verif/seeded/$id-$pre$x/meta.json" ] && continue
    echo "##### $id-$pre$x (phase $ph)"
    PHASE=$ph /verif/tools/try_mutation.sh "$id" "$pre$x" "$root/$id" "$d" "$(dirname "$d")/demo.rs" 2>&1 | cut -c1-360
  done
done
