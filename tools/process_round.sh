#!/bin/bash
# process_round.sh <root dir of worktrees> <label prefix>: run try_mutation on every finished, unprocessed OUT/<X>/
root="$1"; pre="$2"
for d in "$root"/C*/OUT/*/patch.diff; do
  [ -f "$d" ] || continue
  x=$(basename "$(dirname "$d")"); id=$(basename "$(dirname "$(dirname "$(dirname "$d")")")")
  [ -f "$(dirname "$d")/demo.rs" ] && [ -f "$(dirname "$d")/notes.md" ] || continue
  [ -d "/verif/seeded/$id-$pre$x" ] && continue
  echo "##### $id-$pre$x"
  /verif/tools/try_mutation.sh "$id" "$pre$x" "$root/$id" "$d" "$(dirname "$d")/demo.rs" 2>&1 | cut -c1-360
done
