#!/usr/bin/env python3
"""Regenerates the table of section 12 of DESIGN.md from /verif/seeded/*/meta.json."""
import json, glob, re
rows=[]; benign=[]
for f in sorted(glob.glob('/verif/seeded/*/meta.json')):
    m=json.load(open(f))
    if m.get('kind')=='behaviour-preserving':
        benign.append(m); continue
    caught=[c['check'] for c in m['checks'] if c['exit']==1]
    missed=[c['check'] for c in m['checks'] if c['exit']==0]
    what=''
    try:
        notes=open(f.replace('meta.json','notes.md')).read()
        # first non-heading, non-empty line as a one-line description
        for line in notes.splitlines():
            t=line.strip()
            if t and not t.startswith('#') and len(t)>30:
                what=re.sub(r'[|`*]','',t)[:200]; break
    except Exception: pass
    what=m.get('summary',what)
    rows.append((m['property'],m['label'],what,caught,missed,m.get('history','')))
out='| change | what it does / what it needs | caught by (quick) | history |\n|---|---|---|---|\n'
for p,l,w,c,mi,h in rows:
    out+=f"| {p}-{l} | {w} | {', '.join(c) if c else '—'}{(' (not: '+', '.join(mi)+')') if mi else ''} | {h} |\n"
out+='\n**Behaviour-preserving patches** (no check may raise an alarm):\n\n| patch | checks run (all exit 0) |\n|---|---|\n'
for m in benign:
    ok=all(c['exit']==0 for c in m['checks'])
    out+=f"| {m['name']} | {', '.join(c['check'] for c in m['checks'])}{'' if ok else ' **ALARM**'} |\n"
s=open('/verif/DESIGN.md').read()
a=s.index('<!-- SEEDED-TABLE-BEGIN -->')+len('<!-- SEEDED-TABLE-BEGIN -->')
b=s.index('<!-- SEEDED-TABLE-END -->')
open('/verif/DESIGN.md','w').write(s[:a]+'\n'+out+s[b:])
print(len(rows),'seeded,',len(benign),'benign')
