#!/bin/bash
# Re-runs registered checks against an already confirmed seeded change and records the result.
#   tools/retest.sh <seeded-id> [tier] <properties...>     e.g. tools/retest.sh C07-3A quick C07
# Applies /verif/seeded/<id>/patch.diff to /repo, runs ./check <property> <tier>, undoes the patch
# (git -C /repo checkout -- .), and replaces the entries of those checks in meta.json.
set -u
id="$1"; shift
tier=quick
case "${1:-}" in quick|thorough) tier="$1"; shift;; esac
out=/verif/seeded/$id
[ -f "$out/patch.diff" ] || { echo "no $out/patch.diff"; exit 2; }
[ -z "$(git -C /repo status --porcelain)" ] || { echo "/repo is not clean"; exit 2; }
git -C /repo apply "$out/patch.diff" 2>/dev/null || git -C /repo apply -3 "$out/patch.diff" || { echo "PATCH DOES NOT APPLY TO /repo"; git -C /repo reset -q --hard HEAD; exit 2; }
results=""
for p in "$@"; do
  (cd /verif && VSIM_NO_EVIDENCE=1 ./check "$p" "$tier" > "$out/check-$p.log" 2>&1); st=$?
  v=$(grep -E "^VIOLATION|oracle=" "$out/check-$p.log" | head -3 | cut -c1-300 | tr '\n' ' ')
  echo "$id check $p ($tier): exit=$st $v"
  results="$results{\"check\":\"$p\",\"exit\":$st,\"tier\":\"$tier\"},"
done
git -C /repo checkout -q -- . ; git -C /repo reset -q --hard HEAD
python3 - "$out" "[${results%,}]" <<'PY'
import json,sys
out,res=sys.argv[1:3]
res=json.loads(res)
m=json.load(open(out+"/meta.json"))
names={r["check"] for r in res}
old=[c for c in m["checks"] if c["check"] in names]
m.setdefault("first_result",[c for c in m["checks"]])
m["checks"]=[c for c in m["checks"] if c["check"] not in names]+[({"check":r["check"],"exit":r["exit"]} if r["tier"]=="quick" else r) for r in res]
json.dump(m,open(out+"/meta.json","w"),indent=1,ensure_ascii=False)
PY
