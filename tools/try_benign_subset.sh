#!/bin/bash
# Like try_benign.sh, but re-runs only the given checks and merges them into the recorded meta.json.
patch="$1"; name="$2"; shift 2
out=/verif/seeded/benign-$name
cd /repo && git apply "$out/patch.diff" 2>/dev/null || git apply -3 "$out/patch.diff" || { echo "PATCH DOES NOT APPLY"; git reset -q --hard HEAD; exit 2; }
res=""
for p in "$@"; do
  (cd /verif && VSIM_NO_EVIDENCE=1 ./check "$p" quick > "$out/check-$p.log" 2>&1); st=$?
  echo "benign $name: check $p exit=$st $(grep -E '^VIOLATION|HARNESS|^  oracle=' "$out/check-$p.log" | head -2 | cut -c1-260 | tr '\n' ' ')"
  res="$res{\"check\":\"$p\",\"exit\":$st},"
done
git -C /repo checkout -q -- . ; git -C /repo reset -q --hard HEAD
python3 - "$out" "[${res%,}]" <<'PY'
import json,sys
out,res=sys.argv[1:3]; res=json.loads(res)
m=json.load(open(out+"/meta.json")); names={r["check"] for r in res}
m["checks"]=[c for c in m["checks"] if c["check"] not in names]+res
json.dump(m,open(out+"/meta.json","w"))
PY
