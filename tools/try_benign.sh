#!/bin/bash
# try_benign.sh <patch.diff> <name> <properties...>: apply a behaviour-preserving patch to /repo, run the
# quick checks, undo. Every check must exit 0 (no false alarm). Records /verif/seeded/benign-<name>/.
patch="$1"; name="$2"; shift 2
out=/verif/seeded/benign-$name; mkdir -p "$out"; cp "$patch" "$out/patch.diff"
[ -f "$(dirname "$patch")/notes.md" ] && cp "$(dirname "$patch")/notes.md" "$out/notes.md"
cd /repo && git apply "$out/patch.diff" 2>/dev/null || git apply -3 "$out/patch.diff" || { echo "PATCH DOES NOT APPLY"; git checkout -q -- .; exit 2; }
res=""
for p in "$@"; do
  (cd /verif && VSIM_NO_EVIDENCE=1 ./check "$p" quick > "$out/check-$p.log" 2>&1); st=$?
  echo "benign $name: check $p exit=$st $(grep -E '^VIOLATION|HARNESS|^  oracle=' "$out/check-$p.log" | head -2 | cut -c1-260 | tr '\n' ' ')"
  res="$res{\"check\":\"$p\",\"exit\":$st},"
done
git -C /repo checkout -q -- . ; git -C /repo reset -q --hard HEAD
echo "{\"kind\":\"behaviour-preserving\",\"name\":\"$name\",\"checks\":[${res%,}]}" > "$out/meta.json"
