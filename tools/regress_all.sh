#!/bin/bash
# Re-runs the registered quick checks against every seeded change and every behaviour-preserving
# patch kept under /verif/seeded (each: apply to /repo, run, undo). Prints one line per check.
#   tools/regress_all.sh [seeded|benign|all]
cd /verif
what="${1:-all}"
for d in seeded/*/; do
  id=$(basename "$d")
  [ -f "$d/meta.json" ] || continue
  checks=$(python3 -c "import json,sys; m=json.load(open(sys.argv[1])); print(' '.join(dict.fromkeys(c['check'] for c in m['checks'])))" "$d/meta.json")
  case "$id" in
    benign-*) [ "$what" = seeded ] && continue
              tools/try_benign.sh "$d/patch.diff" "${id#benign-}" $checks ;;
    *)        [ "$what" = benign ] && continue
              tools/retest.sh "$id" $checks ;;
  esac
done
