#!/bin/bash
# Determinism proof: every scenario, N run indices, executed in separate processes with 1 and 16
# worker threads (and twice with 16): the per-run event-log digests must be identical.
#   tools/determinism.sh [N] [properties...]
N="${1:-2000}"; shift
props=("$@"); [ ${#props[@]} -eq 0 ] && props=(C04 C05 C06 C07 C08 C09 C10 C13 C14 C15 C16 C19 C20)
V=/verif/sim/target/release/vsim
D=/verif/logs/determinism; mkdir -p "$D"
bad=0
for p in "${props[@]}"; do
  n=$N; case $p in C14|C15|C16) n=$((N/10));; C09) n=$((N/4));; esac
  for cfg in "16 a" "16 b" "1 c" "5 d"; do
    set -- $cfg
    VERIF_SEED=${VERIF_SEED:-1} $V --property $p --tier quick --runs $n --threads $1 --digests "$D/$p.$2" --no-evidence >/dev/null 2>&1
  done
  if cmp -s "$D/$p.a" "$D/$p.b" && cmp -s "$D/$p.a" "$D/$p.c" && cmp -s "$D/$p.a" "$D/$p.d"; then
    echo "$p: $(wc -l < "$D/$p.a") runs x 4 processes (16,16,1,5 threads): digests identical"
  else
    echo "$p: DIGESTS DIFFER"; bad=1
    diff "$D/$p.a" "$D/$p.c" | head -5
  fi
done
exit $bad
