#!/bin/bash
# Confirms a seeded property-breaking change and runs the registered checks against it.
#   tools/try_mutation.sh <property> <label> <worktree> <patch.diff> <demo.rs> [extra properties to run...]
# 1. in the scratch worktree: patch applies, `cargo test --workspace` passes, the demo fails with the
#    patch and passes without it;
# 2. in /repo: apply the patch, run ./check <property> quick (and the extra ones), undo the patch.
# Writes /verif/seeded/<property>-<label>/{patch.diff,demo.rs,meta.json}.
set -u
prop="$1"; label="$2"; wt="$3"; patch="$4"; demo="$5"; shift 5
out=/verif/seeded/$prop-$label
mkdir -p "$out"
cp "$patch" "$out/patch.diff"; cp "$demo" "$out/demo.rs"
[ -f "$(dirname "$patch")/notes.md" ] && cp "$(dirname "$patch")/notes.md" "$out/notes.md"
log="$out/confirm.log"
# PHASE=1: only the confirmation in the scratch worktree (may run in parallel for several worktrees);
# PHASE=2: only the check against /repo (serial), using the stored confirmation; default: both.
if [ "${PHASE:-}" != 2 ]; then
: > "$log"
cd "$wt" || exit 2
git checkout -q -- . ; rm -rf vibrato/tests/demo_mut.rs
mkdir -p vibrato/tests
git apply "$out/patch.diff" >>"$log" 2>&1 || { echo "PATCH DOES NOT APPLY"; exit 2; }
suite=$(cargo test --workspace --offline 2>&1 | tee -a "$log" | grep -E "^test result" | awk '{p+=$4; f+=$6} END {print p" passed "f" failed"}')
cp "$out/demo.rs" vibrato/tests/demo_mut.rs
cargo test -p vibrato --offline --test demo_mut >>"$log" 2>&1; demo_with=$?
git checkout -q -- .
cargo test -p vibrato --offline --test demo_mut >>"$log" 2>&1; demo_without=$?
rm -f vibrato/tests/demo_mut.rs; rmdir vibrato/tests 2>/dev/null
echo "suite with patch: $suite; demo with patch exit=$demo_with (want !=0); demo without patch exit=$demo_without (want 0)"
printf '%s\n%s\n%s\n' "$suite" "$demo_with" "$demo_without" > "$out/phase1.txt"
[ "${PHASE:-}" = 1 ] && exit 0
else
  { read -r suite; read -r demo_with; read -r demo_without; } < "$out/phase1.txt" || { echo "no phase-1 result"; exit 2; }
fi
# run the checks against /repo with the patch applied
cd /repo && git apply "$out/patch.diff" || { echo "PATCH DOES NOT APPLY TO /repo"; exit 2; }
results=""
for p in "$prop" "$@"; do
  (cd /verif && VSIM_NO_EVIDENCE=1 ./check "$p" quick > "$out/check-$p.log" 2>&1); st=$?
  v=$(grep -E "^VIOLATION|oracle=" "$out/check-$p.log" | head -3 | cut -c1-300 | tr '\n' ' ')
  echo "check $p: exit=$st $v"
  results="$results{\"check\":\"$p\",\"exit\":$st},"
done
git -C /repo checkout -q -- .
python3 - "$out" "$prop" "$label" "$suite" "$demo_with" "$demo_without" "[${results%,}]" <<'PY'
import json,sys
out,prop,label,suite,dw,dwo,res=sys.argv[1:8]
meta={"property":prop,"label":label,"suite_with_patch":suite,"demo_exit_with_patch":int(dw),"demo_exit_without_patch":int(dwo),
      "checks":json.loads(res),
      "ran":["git apply patch.diff (scratch worktree)","cargo test --workspace --offline","cargo test -p vibrato --offline --test demo_mut (with and without the patch)","git -C /repo apply patch.diff; ./check <property> quick; git -C /repo checkout -- ."]}
try:
    meta["needs"]=open(out+"/notes.md").read()[:1500]
except Exception: pass
json.dump(meta,open(out+"/meta.json","w"),indent=1,ensure_ascii=False)
PY
