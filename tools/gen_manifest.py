#!/usr/bin/env python3
"""Generates /verif/MANIFEST.json from the table below (single source of truth) and validates it."""
import json, subprocess, sys, os

ROOT = "/verif"
PURE = {
    "C01": "pure function of (accepted dictionary, options, sentence): no stream, schedule, crash point, history or hidden choice occurs in the statement; deterministic simulation would degenerate to random input generation (its worker-reuse aspect is decided under C04, its builder-acceptance aspect under C10)",
    "C02": "pure optimisation property of the lattice (Viterbi optimality) - nothing a simulator controls (faults, schedules, histories) can change it; needs property-based testing, bounded model checking or proof",
    "C03": "pure function of (char.def, unk.def, lexicon, sentence, option): candidate generation has no fault, schedule or history dimension",
    "C11": "pure function of the CSV bytes (read_to_end is std's; chunking of the reader cannot reach vibrato's parser); no fault or history dimension",
    "C12": "pure metamorphic relation between sentences; no fault, schedule or history dimension",
    "C17": "pure function of (rule list, feature list); the only stream involved hands text to BufReader::lines",
    "C18": "pure function of (template set, rewrite rules, feature rows); no fault, schedule or history dimension",
}

# id -> (level, technique, level text, level note, design ref)
CLAIMED = {
    "C09": ("fault_enumeration",
            "crash-point enumeration (every strict prefix of sampled images) + seeded torn-write/faulty-stream simulation",
            "Every byte offset at which writing or copying an image can stop is enumerated for each sampled image (connector kind x user lexicon x mapper) and must be rejected without panic; all single-byte substitutions of the magic likewise (read whole and through a 3-byte-chunked reader); a tail enumeration covers every prefix of the last ~6000 bytes of 96 further images with a last feature of 0-3900 bytes; one world in twelve has an empty unk.def. Seeded runs add torn writes through a crashing sink followed by restart+read, failing readers and a positive control (the full image through arbitrary chunking/EINTR loads and behaves identically). Exhaustive per image, sampled over images.",
            "Trusts the in-memory stream stubs (FaultyReader/FaultySink) to model files; images come from seeded worlds bounded as in DESIGN section 5; bit flips inside a complete image are out of scope (no checksum in the format).",
            "DESIGN.md section 6 (C09)"),
}
CLAIMED.update({
    "C04": ("exploration",
            "seeded operation-history simulation of reused workers + op-level scheduler over one shared tokenizer, replica oracle (fresh worker)",
            "Seeded search over histories (reset/tokenize 0-3x/read/iter/counter ops/recreate over adversarial sentence sequences) of 1-4 simulated caller tasks sharing one Tokenizer, with the interleaving decided by the plan; after every read the tokens must equal a fresh worker's. One run in 150 puts a burst of 255..131071 tokenizations of a short sentence between two sentences of one worker (wrap-around of 8/16-bit generation counters). In both tiers a second step runs three real threads over one shared Tokenizer under Miri's seeded scheduler (4 scheduler seeds quick, 32 thorough): no data race, no undefined behaviour, tokens equal to fresh workers'. Sampled, not exhaustive; a Send+Sync probe turns loss of thread-shareability into a reported violation.",
            "Interleaving in the seeded runs is at operation granularity on one OS thread (no std::sync in vibrato to intercept); sub-operation interleaving only in the Miri step; the fresh-worker replica is the oracle, so a bug that affects fresh and reused workers alike is outside this property.",
            "DESIGN.md section 6 (C04)"),
    "C13": ("exploration",
            "seeded history simulation of the reorder loop against a reference counter recomputed from lattice dumps; reorder->map round trip",
            "Seeded search over sequences of lines (empty, repeated, all-space, long-then-short) with extra tokenize/update/init calls; the statistics must be a permutation of 1..dim ordered by (reference count desc, id asc) with non-increasing reported frequencies, where the reference counts one connection-cost evaluation per predecessor/node pair of pristine lattices; the resulting mapping must be accepted and preserve tokenization. Sampled, not exhaustive.",
            "The reference counter reads the lattice through hook H2 (real lattice construction); the reorder/map CLIs are mirrored, not executed.",
            "DESIGN.md section 6 (C13)"),
})
CLAIMED.update({
    "C05": ("exploration",
            "replica-divergence simulation: write->faulty streams->read replicas under seeded histories of later operations; byte-identity and returned-count oracles; hard-fault injection",
            "Seeded search over histories in which copies of a dictionary go through write/read at arbitrary points (also copies of copies) via short-write/EINTR sinks and short-read/EINTR readers, then all replicas receive the same later operations (user lexicon load/clear, id mapping) and must stay observationally equal (full token tuples for probe sentences x option sets, every id-pair connection cost) and write identical bytes with write() reporting exactly the bytes accepted; hard sink/reader faults must give Err. Dual connectors add a replica rebuilt under another template split. Worlds include 182-300 ids per side (> 32768 matrix cells), 65536 ids on one side and user lexicons over 64 KiB at low rates. A second step exchanges images between the portable and the AVX2 build in both directions (120 cases per direction quick, 1500 thorough). Sampled, not exhaustive.",
            "Observation is over seeded probes and all id pairs (hook H1); stream stubs model files; Dictionary::write follows the std convention that the caller flushes a buffering sink it passes by value.",
            "DESIGN.md section 6 (C05)"),
    "C06": ("exploration",
            "two-replica (mapped vs never-mapped) history simulation against a harness-tracked composed permutation; malformed-mapping injection with restart",
            "Seeded search over orders of {map, map again, load/clear user lexicon, write/read, malformed mapping}: the mapped replica must equal the unmapped one up to the composed permutation (token tuples with translated ids; cost_M(PR(r),PL(l)) == cost_R(r,l) for every pair incl. id 0), for all three connector kinds; every malformed mapping kind must be rejected with Err (never applied, never a panic), after which the replica rebuilt by replaying the history must still agree. Worlds include 182-300 ids per side and 65536 ids on one side at low rates. Sampled, not exhaustive.",
            "The composed permutation is computed by the harness from the documented direction of the mapping lists; observation over seeded probes and all id pairs.",
            "DESIGN.md section 6 (C06)"),
    "C08": ("exploration",
            "history simulation of load/replace/clear against pristine replicas (rebuilt with only the current rows; system lexicon extended by the rows); malformed-lexicon and reader-fault injection with restart",
            "Seeded search over load/replace/clear histories (optionally on mapped dictionaries, through short-read/EINTR readers): the dictionary must equal a pristine replica holding only the current rows (tokens and all connection costs), its per-position candidate multisets and optimal cost must equal those of a dictionary whose system lexicon contains the same rows, and no User token may appear without a user lexicon; every malformed lexicon kind and every reader hard error must give Err without panic. One user lexicon in 150 is larger than 64 KiB with the probed rows beyond the first 64 KiB. Sampled, not exhaustive.",
            "Candidate multisets come from the lattice dump hook H2; token sequences are not compared against the extended system lexicon (ties).",
            "DESIGN.md section 6 (C08)"),
})
CLAIMED.update({
    "C10": ("exploration",
            "storage-fault injection into the definition-file streams (seeded single/multi-edit corruptions + short reads/EINTR/hard read errors), total-function and safe-use oracles, reference char.def interpreter",
            "Seeded search over corrupted worlds: 0-3 storage faults (generic byte/line/field edits, boundary numbers, the documented structural hazards of each format) on lex.csv, matrix.def, char.def, unk.def, bigram.right/left/cost, user CSV and mapping lists, delivered through readers with short reads, EINTR and hard errors. Every builder call must return Ok or Err (never panic, never swallow a fired I/O error); every accepted dictionary must tokenize ~60 probe sentences under every option set without panic with ids inside the connector, and must assign character categories exactly like a strict reference interpreter of the same file. One recorded known finding (KF-C10-1) is matched by its precise predicate only. Sampled, not exhaustive.",
            "The reference interpreter covers char.def files inside a strict grammar (others are counted as unchecked); matrix headers implying > 2^22 cells are not generated; allocation failure is not injected.",
            "DESIGN.md section 6 (C10)"),
})
CLAIMED.update({
    "C07": ("exploration",
            "hidden-choice exploration: seeded template-split orders of the dual connector (hook H5) and seeded hash order (hash-order seam) against the raw connector, a harness-side defining sum and an executable reference model of the dual connector; portable<->AVX2 exchange",
            "For seeded bigram models (K = 1..20 templates, ragged rows, shared/quoted strings, BOS/EOS lines, aligned blocks of empty columns, 65535 rows on one side at a low rate) the raw connector must equal the harness-side defining feature-pair sum for every id pair incl. id 0; the dual connector, under the ascending and 2-8 seeded trial orders of its greedy template split (in production that order is randomly keyed hash order and differs from run to run), must equal for every id pair the reference model clamp16(sum over the pre-summed positions) + sum over the other positions, where the pre-summed positions come from the harness's own re-implementation of the greedy split - also in one world in five whose per-template costs are thousands with signs alternating by blocks of eight positions (partial sums leave 16 bits); when no pre-sum is clamped, raw, dual and a matrix.def materialised from the sums must tokenize alike. A second step exchanges raw and dual images between the portable and the AVX2 build. Sampled over models and split orders, not exhaustive.",
            "The for-all-models content of the statement is sampled as workload; bigram.cost contains no literal '*' feature and no '/'-only line.",
            "DESIGN.md section 6 (C07)"),
    "C14": ("exploration",
            "model-export simulation: real training, reference image recomputed from RawModel::merge(), four fault-injecting sinks (seeded + enumerated fault offsets), read-back and compile from the simulated disk",
            "Seeded trainer worlds are trained with the real trainer; write_dictionary's four outputs are compared field by field with a reference image recomputed from the raw model (row order, surfaces, verbatim features, merged class ids, matrix dimensions and entry set, every cost == trunc(-w*32767/max|w|), user rows trained iff given as 0,0,0, and a user row that duplicates a seed word must get that word's cost); short-write/EINTR sinks must not change a byte, whether the sink is passed by &mut or by value inside a BufWriter/LineWriter the callee owns; a hard fault at any offset of any sink (seeded per run, every offset for a few models) must give Err - never Ok with a short file; the emitted files are read back through faulty readers and must compile, the user file must load. Sampled over worlds; sink offsets exhaustive per enumerated model.",
            "rucrf's merge() is the trusted definition of classes and weights; either floating evaluation order of the cost formula is accepted; worlds whose training fails are skipped.",
            "DESIGN.md section 6 (C14)"),
    "C15": ("exploration",
            "replica-divergence simulation of trained models: write_model->faulty streams->read_model replicas with warm/cold caches under seeded histories; hard-fault injection",
            "Seeded histories of {generate, write_model/read_model round trip through faulty streams (also of a round trip), add user lexicon, generate again}: every replica must emit identical lex/matrix/unk/user/bigram.left/bigram.right bytes and identical bigram.cost line multisets, generating twice must be stable, write_model must report the bytes accepted, hard faults must give Err. Sampled, not exhaustive.",
            "Model-file bytes are not compared (hash-order dependent, not claimed); round trips after a user lexicon are outside the statement.",
            "DESIGN.md section 6 (C15)"),
    "C16": ("exploration",
            "dictgen->simulated disk->compile pipeline simulation: three fault-injecting bigram sinks, read-back through faulty readers, three consumers (matrix, raw, dual under seeded splits) compared on every id pair",
            "Seeded trainer worlds: the emitted lex/matrix/unk and bigram.left/right/cost files are read back from the simulated disk and compiled with the matrix, raw and dual connectors (two seeded template splits); for every id pair incl. id 0 |raw - matrix| <= K+1 and dual == raw (the latter wherever the negative and the positive per-template costs of the pair each sum to within 16 bits, so that any pre-summed part fits), with equal id counts; one world in ten has more than eight templates; benign sink faults change nothing, hard sink faults give Err. One recorded known finding (KF-C16-1, literal '*' features) is matched by its precise predicate only. Sampled, not exhaustive.",
            "Feature values contain no '/' or tab; worlds whose training fails are skipped.",
            "DESIGN.md section 6 (C16)"),
})
CLAIMED.update({
    "C19": ("exploration",
            "corpus round trip through fault-injecting reader and sink (seeded + enumerated sink fault offsets); reference parser; mirrored tokenize loop feeding the parser",
            "Seeded corpora in the documented format are parsed through short-read/EINTR readers and written back example by example through short-write/EINTR sinks: bytes must equal the canonical re-serialisation of a harness-side reference parse and re-parse to the same examples; malformed lines must be rejected; the mirrored tokenize loop's MeCab-style output for seeded dictionaries and tab-free sentences must parse to exactly the tokenizer's tokens; lines of 8 KiB / 16 KiB / 64 KiB +-3 bytes and up to 40 KB occur at a low rate; a hard sink fault at any offset (seeded per run; every offset for 20 examples; sink passed by &mut or by value inside a BufWriter/LineWriter) makes Example::write return Err, a hard reader fault makes from_reader return Err. Sampled; sink offsets exhaustive per enumerated example.",
            "The tokenize CLI's print loop is mirrored, not executed; inputs contain no tab/line-break characters (the statement's precondition).",
            "DESIGN.md section 6 (C19)"),
    "C20": ("exploration",
            "MeCab-model conversion pipeline on a simulated disk: four fault-injecting readers, three fault-injecting sinks (seeded + enumerated offsets), compile of the outputs and comparison with a harness-side model expansion",
            "Seeded MeCab model descriptions (templates with optional references and literals, id tables, weight tables with zero/truncating/unlisted/unmatched lines, cost factors) are converted through short/EINTR streams; the emitted files are compiled with the raw connector and every non-zero id pair must cost the sum over applicable templates of -trunc(w*factor); ids dense (the id tables list them in any order: one table in four is shuffled); the statement's three error worlds must return Err; a hard fault at any offset of a sink (seeded; every offset for a few models) must give Err, a fired reader error must give Err. Sampled; sink offsets exhaustive per enumerated model.",
            "Template shapes restricted to the unambiguous ones; feature values contain no '/'; a table without id 0 is outside the statement.",
            "DESIGN.md section 6 (C20)"),
})
PENDING = {
}

def main():
    props = [json.loads(l) for l in open(f"{ROOT}/properties.jsonl")]
    ids = [p["id"] for p in props]
    hooks_commits = subprocess.run(
        ["git", "-C", "/repo", "log", "--format=%H %s"], capture_output=True, text=True).stdout.splitlines()
    hook_shas = [l.split()[0] for l in hooks_commits if " verif hooks" in l]
    checks = []
    for pid in ids:
        if pid in CLAIMED:
            level, tech, text, note, ref = CLAIMED[pid]
            checks.append({
                "property_id": pid,
                "quick_cmd": f"./check {pid} quick",
                "thorough_cmd": f"./check {pid} thorough",
                "evidence_file": f"evidence/{pid}.json",
                "replay_cmd_template": f"./check {pid} --replay {{path}}",
                "engine": "vsim",
                "level_claimed": {"category": level, "text": text, "design_ref": ref},
                "level_note": note,
                "technique": tech,
            })
    na = []
    for pid in ids:
        if pid in PURE:
            na.append({"property_id": pid, "reason": "not applicable to deterministic simulation with fault injection: " + PURE[pid]})
        elif pid in PENDING:
            na.append({"property_id": pid, "reason": PENDING[pid]})
        elif pid not in CLAIMED:
            na.append({"property_id": pid, "reason": "not claimed yet: the simulator scenario for this property (DESIGN.md section 6) is still under construction"})
    m = {
        "version": 1,
        "setup_cmd": "./check build",
        "hooks": {
            "guard": "vibrato_verif",
            "enable": "RUSTFLAGS='--cfg vibrato_verif' (set in /verif/sim/.cargo/config.toml; the simulator depends on /repo/vibrato by path)",
            "baseline_off_cmd": "cd /repo && cargo test --workspace --no-fail-fast --offline",
            "source_commits": list(reversed(hook_shas)),
            "add_only": False,
        },
        "engines": [{
            "name": "vsim",
            "path": "sim/",
            "serves_properties": [c["property_id"] for c in checks],
            "kind_free_text": "hand-written deterministic simulator: one PRNG value decides world, operation history, schedule and fault plan of a run (plan phase), execution is PRNG-free against the real vibrato code through fault-injecting Read/Write stubs; seeded search over many runs on all cores, smallest-failing-run verdict, delta-debugged replay files. Hash iteration order of every hashbrown map in vibrato is seeded per run through ahash's own RandomState::set_random_source (sim/vendor/ahash = registry copy of ahash 0.7.8 plus one re-export line, patched in the simulator's manifest only). The simulator proper runs in a child process: an abort of the code under test (failed allocation, stack overflow) is reported as a violation with the plan of the run that caused it. C04 additionally runs real threads under Miri's seeded scheduler; C05/C07 exchange images between a portable and an AVX2 build of the simulator",
        }],
        "checks": checks,
        "notes": "add_only=false because hook H5 rewrites one line: the header of the template-trial loop in DualConnector::remove_feature_templates_greedy now iterates a cfg-selected source (with the guard off it is the original expression). Everything else the hook commits contain is added code under #[cfg(vibrato_verif)]. See DESIGN.md sections 4 and 7 for hooks, fixes and known findings. The hash-order seam needs no change to /repo (it patches the ahash dependency of the simulator build only).",
        "not_applicable": na,
    }
    with open(f"{ROOT}/MANIFEST.json", "w") as f:
        json.dump(m, f, indent=1, ensure_ascii=False)
        f.write("\n")
    try:
        import jsonschema
        schema = json.load(open("/root/.vp/MANIFEST.schema.json"))
        jsonschema.validate(m, schema)
        es = json.load(open("/root/.vp/EVIDENCE.schema.json"))
        for c in checks:
            p = f"{ROOT}/{c['evidence_file']}"
            if os.path.exists(p):
                jsonschema.validate(json.load(open(p)), es)
            else:
                print("note: missing", p)
        print("MANIFEST.json valid;", len(checks), "checks,", len(na), "not applicable/unclaimed")
    except ImportError:
        print("jsonschema not available; wrote MANIFEST.json unvalidated")

if __name__ == "__main__":
    main()
