//! Two-build exchange (portable <-> AVX2): the two builds of vibrato act as two parties that
//! exchange dictionary images over the (real, local) disk. The exporter writes, per seeded case,
//! images and observation transcripts; the importer — the *other* build — reads the images,
//! observes them, re-writes them and compares with the transcripts; it also rebuilds every case
//! from the sources with its own code path and compares the observations (same numbers from both
//! scorers).
//!
//! Cases are pure functions of (seed, case index), so both builds regenerate the same plans.

use std::collections::BTreeMap;

use vibrato::Dictionary;

use crate::core::{catch, Ctx, Scenario, Tier};
use crate::dictops::{load_user, map_ids, read_image, write_image};
use crate::json::J;
use crate::obs::{build_plain, observe};
use crate::plan::{Fault, Plan};
use crate::rng::{run_seed, Rng};
use crate::world::{parse_ids, CONN_DUAL, CONN_RAW};

pub fn build_label() -> &'static str {
    if cfg!(target_feature = "avx2") {
        "avx2"
    } else {
        "portable"
    }
}

/// One exchanged dictionary of a case: how to build it from the plan.
struct Item {
    name: String,
    conn: i64,
    order_seed: u64,
    /// apply the plan's LoadUser/Map ops (C05) before exporting
    history: bool,
}

fn case_plan(prop: &str, seed: u64, case: u64) -> Plan {
    let mut rng = Rng::new(run_seed(seed, &format!("{prop}-xbuild"), case));
    match prop {
        "C07" => crate::scen_bigram::BigramScenario.plan(&mut rng, Tier::Quick, seed, case),
        _ => crate::scen_dict::RoundTripScenario.plan(&mut rng, Tier::Quick, seed, case),
    }
}

fn items(prop: &str, plan: &Plan) -> Vec<Item> {
    if prop == "C07" {
        let mut v = vec![Item {
            name: "raw".into(),
            conn: CONN_RAW,
            order_seed: 0,
            history: false,
        }];
        for (i, op) in plan.ops.iter().filter(|o| o.kind == "Dual").take(3).enumerate() {
            v.push(Item {
                name: format!("dual{i}"),
                conn: CONN_DUAL,
                order_seed: op.num(0) as u64,
                history: false,
            });
        }
        v
    } else {
        vec![Item {
            name: "dict".into(),
            conn: plan.param("conn"),
            order_seed: plan.param("order_seed") as u64,
            history: true,
        }]
    }
}

fn probes(plan: &Plan) -> Vec<String> {
    crate::scen_dict::probes_of(plan)
}

/// Builds an item; `stage` 1 = as exported, 2 = after the later operations (user lexicon, mapping).
fn build_item(plan: &Plan, item: &Item, ctx: &mut Ctx) -> Result<Dictionary, String> {
    let mut d = build_plain("xbuild", &plan.files, item.conn, item.order_seed, ctx).map_err(|v| v.detail)?;
    if item.history {
        let none = Fault::default();
        for op in &plan.ops {
            match op.kind.as_str() {
                "LoadUser" => {
                    let csv = plan.file(&format!("user{}.csv", op.num(0))).to_vec();
                    d = flat(load_user(d, &csv, &none, ctx))?;
                }
                "Map" => {
                    d = flat(map_ids(d, &parse_ids(op.str(0)), &parse_ids(op.str(1))))?;
                }
                _ => {}
            }
        }
    }
    Ok(d)
}

fn flat<T>(g: crate::dictops::Guarded<T>) -> Result<T, String> {
    match g {
        Ok(Ok(v)) => Ok(v),
        Ok(Err(e)) => Err(e),
        Err(p) => Err(p.brief()),
    }
}

/// Later operations applied after the exchange (the reloaded dictionary must behave identically
/// under them): a user lexicon and a reversal of the id order.
fn later_ops(plan: &Plan, d: Dictionary, ctx: &mut Ctx) -> Result<Dictionary, String> {
    let none = Fault::default();
    let csv = plan.file("user2.csv").to_vec();
    let d = flat(load_user(d, &csv, &none, ctx))?;
    let nl = d.verif_num_left();
    let nr = d.verif_num_right();
    let l: Vec<u16> = (1..nl).rev().map(|x| x as u16).collect();
    let r: Vec<u16> = (1..nr).rev().map(|x| x as u16).collect();
    flat(map_ids(d, &l, &r))
}

fn obs_text(d: Dictionary, probes: &[String]) -> Result<(Dictionary, String), String> {
    let (d, o) = observe(d, probes, true);
    match o {
        Ok(o) => Ok((d, format!("{o:?}"))),
        Err(p) => Err(p.brief()),
    }
}

fn image_of(d: &Dictionary, ctx: &mut Ctx) -> Result<Vec<u8>, String> {
    let none = Fault::default();
    let (r, bytes) = write_image(d, &none, ctx);
    flat(r).map(|_| bytes)
}

pub fn export(prop: &str, seed: u64, cases: std::ops::Range<u64>, dir: &str, say: &dyn Fn(&str)) -> i32 {
    let _ = std::fs::create_dir_all(dir);
    let mut ctx = Ctx::new(false);
    let mut n = 0;
    for case in cases {
        let plan = case_plan(prop, seed, case);
        crate::hashseam::begin_plan(&plan);
        let pr = probes(&plan);
        for item in items(prop, &plan) {
            let base = format!("{dir}/{case}-{}", item.name);
            let r = (|| -> Result<(), String> {
                let d = build_item(&plan, &item, &mut ctx)?;
                let img = image_of(&d, &mut ctx)?;
                let (d, o1) = obs_text(d, &pr)?;
                std::fs::write(format!("{base}.img"), &img).map_err(|e| e.to_string())?;
                std::fs::write(format!("{base}.obs1"), o1).map_err(|e| e.to_string())?;
                if item.history {
                    let d2 = later_ops(&plan, d, &mut ctx)?;
                    let img2 = image_of(&d2, &mut ctx)?;
                    let (_, o2) = obs_text(d2, &pr)?;
                    std::fs::write(format!("{base}.img2"), &img2).map_err(|e| e.to_string())?;
                    std::fs::write(format!("{base}.obs2"), o2).map_err(|e| e.to_string())?;
                }
                Ok(())
            })();
            if let Err(e) = r {
                // a seeded valid world that cannot be compiled, written or observed by this build
                // is a violation of the property (not a harness problem): report it with the plan
                let path = format!("{}/{seed}-xbuild-{case}.json", crate::runner::replay_dir(prop));
                let j = J::obj()
                    .set("format", J::s("vsim-replay-1"))
                    .set(
                        "xbuild",
                        J::obj()
                            .set("exporter", J::s(build_label()))
                            .set("importer", J::s("-"))
                            .set("case", J::i(case))
                            .set("seed", J::i(seed))
                            .set("item", J::s(&item.name)),
                    )
                    .set("violation", J::obj().set("oracle", J::s(&format!("{prop}.xbuild.export"))).set("detail", J::s(&e)))
                    .set("plan", plan.to_json());
                let _ = std::fs::write(&path, j.to_string_pretty());
                say(&format!(
                    "xbuild violation: oracle={prop}.xbuild.export detail=the {} build cannot compile/write/observe seeded case {case}/{}: {e}",
                    build_label(),
                    item.name
                ));
                say(&format!("VIOLATION property={prop} replay={path}"));
                return 1;
            }
            n += 1;
        }
    }
    say(&format!("xbuild export build={} property={prop} items={n} dir={dir}", build_label()));
    0
}

fn first_diff(a: &str, b: &str) -> String {
    let i = a.bytes().zip(b.bytes()).position(|(x, y)| x != y).unwrap_or(a.len().min(b.len()));
    let s = i.saturating_sub(60);
    format!(
        "at byte {i}: ...{} vs ...{}",
        a.get(s..(i + 60).min(a.len())).unwrap_or(""),
        b.get(s..(i + 60).min(b.len())).unwrap_or("")
    )
}

/// Returns (status, items checked). On a violation writes a replay file and prints the line.
pub fn import(
    prop: &str,
    seed: u64,
    cases: std::ops::Range<u64>,
    dir: &str,
    exporter: &str,
    say: &dyn Fn(&str),
) -> i32 {
    let mut ctx = Ctx::new(false);
    let mut n = 0u64;
    let mut by_conn: BTreeMap<String, u64> = BTreeMap::new();
    let none = Fault::default();
    for case in cases.clone() {
        let plan = case_plan(prop, seed, case);
        crate::hashseam::begin_plan(&plan);
        let pr = probes(&plan);
        for item in items(prop, &plan) {
            let base = format!("{dir}/{case}-{}", item.name);
            let r = (|| -> Result<(), String> {
                let img = std::fs::read(format!("{base}.img")).map_err(|e| format!("harness: {e}"))?;
                let o1 = std::fs::read_to_string(format!("{base}.obs1")).map_err(|e| format!("harness: {e}"))?;
                // (1) the other build's image loads here and behaves as it did there
                let d = flat(read_image(&img, &none, &mut ctx)).map_err(|e| format!("image written by the {exporter} build is rejected by the {} build: {e}", build_label()))?;
                let (d, mine) = obs_text(d, &pr)?;
                if mine != o1 {
                    return Err(format!(
                        "image written by the {exporter} build behaves differently when read by the {} build: {}",
                        build_label(),
                        first_diff(&o1, &mine)
                    ));
                }
                // (2) re-writing it here reproduces the same bytes
                let again = image_of(&d, &mut ctx)?;
                if again != img {
                    return Err(format!(
                        "re-writing the {exporter} build's image with the {} build changes the bytes ({} vs {})",
                        build_label(),
                        img.len(),
                        again.len()
                    ));
                }
                // (3) built from the same sources here, the dictionary is the same (both code paths
                // compute the same numbers) and encodes to the same bytes
                let local = build_item(&plan, &item, &mut ctx)?;
                let local_img = image_of(&local, &mut ctx)?;
                let (_, local_obs) = obs_text(local, &pr)?;
                if local_obs != o1 {
                    return Err(format!(
                        "the same sources compiled by the {exporter} and the {} build behave differently: {}",
                        build_label(),
                        first_diff(&o1, &local_obs)
                    ));
                }
                if local_img != img {
                    return Err(format!("the same sources compiled by the {exporter} and the {} build encode to different bytes", build_label()));
                }
                // (4) later operations on the imported dictionary
                if item.history {
                    let o2 = std::fs::read_to_string(format!("{base}.obs2")).map_err(|e| format!("harness: {e}"))?;
                    let img2 = std::fs::read(format!("{base}.img2")).map_err(|e| format!("harness: {e}"))?;
                    let d2 = later_ops(&plan, d, &mut ctx)?;
                    let mine_img2 = image_of(&d2, &mut ctx)?;
                    let (_, mine2) = obs_text(d2, &pr)?;
                    if mine2 != o2 {
                        return Err(format!(
                            "after loading a user lexicon and remapping, the imported dictionary differs from the exporter's: {}",
                            first_diff(&o2, &mine2)
                        ));
                    }
                    if mine_img2 != img2 {
                        return Err("after the later operations the imported dictionary writes different bytes than the exporter's".to_string());
                    }
                }
                Ok(())
            })();
            if let Err(e) = r {
                if e.starts_with("harness:") {
                    say(&format!("HARNESS-ERROR: xbuild import: {e}"));
                    return 2;
                }
                let path = format!("{}/{seed}-xbuild-{case}.json", crate::runner::replay_dir(prop));
                let j = J::obj()
                    .set("format", J::s("vsim-replay-1"))
                    .set(
                        "xbuild",
                        J::obj()
                            .set("exporter", J::s(exporter))
                            .set("importer", J::s(build_label()))
                            .set("case", J::i(case))
                            .set("seed", J::i(seed))
                            .set("item", J::s(&item.name)),
                    )
                    .set("violation", J::obj().set("oracle", J::s(&format!("{prop}.xbuild"))).set("detail", J::s(&e)))
                    .set("plan", plan.to_json());
                let _ = std::fs::write(&path, j.to_string_pretty());
                say(&format!("xbuild violation: oracle={prop}.xbuild detail={e}"));
                say(&format!("VIOLATION property={prop} replay={path}"));
                return 1;
            }
            n += 1;
            let kind = ["matrix", "raw", "dual"][item.conn.clamp(0, 2) as usize];
            *by_conn.entry(kind.to_string()).or_insert(0) += 1;
        }
    }
    let summary = J::obj()
        .set("exporter", J::s(exporter))
        .set("importer", J::s(build_label()))
        .set("cases", J::i(cases.end - cases.start))
        .set("dictionaries_exchanged", J::i(n))
        .set(
            "by_connector",
            J::Obj(by_conn.into_iter().map(|(k, v)| (k, J::i(v))).collect()),
        );
    let _ = std::fs::write(format!("{dir}/summary-{}-to-{}.json", exporter, build_label()), summary.to_string_compact());
    say(&format!(
        "xbuild import build={} exporter={exporter} property={prop} dictionaries={n} ok",
        build_label()
    ));
    let _ = catch(|| ());
    0
}
