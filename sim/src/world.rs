//! Seeded world generator: definition files, user lexicons, sentences, permutations.
//! Everything generated here is *valid* input (corruptions are applied elsewhere, on purpose).

use crate::plan::Plan;
use crate::rng::Rng;

/// Code points the worlds are built from: ASCII, spaces, kana, kanji, 2/3/4-byte UTF-8,
/// astral-plane characters, NUL, CSV-special characters and one code point no range covers.
pub const ALPHABET: &[char] = &[
    'a', 'b', 'c', 'A', 'Z', '1', '2', ' ', '\u{3000}', 'あ', 'い', 'ア', '京', '都', '東', 'é',
    'Ａ', '\u{1F600}', '\u{20BB7}', 'Ω', '\u{0}', ',', '"', '-',
];

pub const CONN_MATRIX: i64 = 0;
pub const CONN_RAW: i64 = 1;
pub const CONN_DUAL: i64 = 2;

#[derive(Clone, Debug, Default)]
pub struct WorldInfo {
    pub num_left: usize,
    pub num_right: usize,
    pub surfaces: Vec<String>,
    pub categories: Vec<String>,
    pub has_space: bool,
    pub conn: i64,
    pub templates: usize,
}

#[derive(Clone, Debug)]
pub struct WorldCfg {
    /// Allowed connector kinds.
    pub conns: Vec<i64>,
    pub min_templates: usize,
    pub max_templates: usize,
    pub max_lex: usize,
    pub max_dim: usize,
    /// One world in `big_dim_one_in` gets 22..=48 ids per side (sorting and permutation code
    /// behaves differently on longer id lists); 0 = never.
    pub big_dim_one_in: u64,
    /// One bigram world in `big_costs_one_in` gets per-template costs of several thousand whose
    /// signs alternate by blocks of eight template positions: partial sums leave the 16-bit range
    /// and later positions cancel them (0 = never; only C07 has the exact oracle for them).
    pub big_costs_one_in: u64,
    /// One world in `huge_dim_one_in` gets 182..=300 ids per side: more than 32768 matrix cells,
    /// files of hundreds of kilobytes (0 = never).
    pub huge_dim_one_in: u64,
    /// One world in `extreme_ids_one_in` has the largest id a lexicon can name (65535) on one side:
    /// 65535 bigram rows (65536 ids incl. BOS/EOS; now and then one fewer), or the 65535 ids that
    /// the 16-bit header of matrix.def allows; the other side stays small (0 = never).
    pub extreme_ids_one_in: u64,
    /// One world in `one_id_side_one_in` has a side with the BOS/EOS id only (matrix.def "N 1",
    /// an empty bigram.left, ...): every word carries id 0 there and the only valid mapping list
    /// for that side is the empty one (0 = never).
    pub one_id_side_one_in: u64,
    /// One world in `threshold_sizes_one_in` has sizes around the thresholds of length encodings:
    /// 250..=257 homographs of one surface (more than 251 lexicon entries), a feature of
    /// 250..=252 bytes (0 = never).
    pub threshold_sizes_one_in: u64,
    /// One lexicon feature in `multiline_feature_one_in` contains a quoted field with a line break
    /// (0 = never; only for scenarios that never split these files into lines themselves).
    pub multiline_feature_one_in: u64,
}

impl Default for WorldCfg {
    fn default() -> Self {
        WorldCfg {
            conns: vec![CONN_MATRIX, CONN_RAW, CONN_DUAL],
            min_templates: 1,
            max_templates: 12,
            max_lex: 30,
            max_dim: 6,
            big_dim_one_in: 10,
            big_costs_one_in: 0,
            huge_dim_one_in: 0,
            extreme_ids_one_in: 0,
            one_id_side_one_in: 0,
            threshold_sizes_one_in: 0,
            multiline_feature_one_in: 0,
        }
    }
}

pub fn csv_quote(s: &str) -> String {
    if s.is_empty() || s.contains([',', '"', '\n', '\r']) || s.starts_with(' ') || s.ends_with(' ')
    {
        format!("\"{}\"", s.replace('"', "\"\""))
    } else {
        s.to_string()
    }
}

fn gen_cost(rng: &mut Rng) -> i64 {
    match rng.below(20) {
        0 => 32767,
        1 => -32768,
        2 => 0,
        _ => rng.range(-3000, 3000),
    }
}

fn gen_surface(rng: &mut Rng, max_len: usize) -> String {
    let n = 1 + rng.usize(max_len);
    let mut s = String::new();
    for _ in 0..n {
        // CSV-special characters are rarer
        let c = loop {
            let c = *rng.pick(ALPHABET);
            // NUL is crawdad's end marker: a surface containing it is (correctly) rejected
            if c == '\u{0}' {
                continue;
            }
            if matches!(c, ',' | '"') && !rng.chance(1, 4) {
                continue;
            }
            break c;
        };
        s.push(c);
    }
    s
}

fn gen_feature(rng: &mut Rng, tag: &str, i: usize) -> String {
    let mut f = format!("{tag}{i}");
    let n = rng.usize(4);
    for _ in 0..n {
        f.push(',');
        match rng.below(6) {
            0 => f.push('*'),
            1 => f.push_str("\"q,uo\"\"ted\""),
            2 => f.push_str("名詞"),
            3 => {}
            _ => f.push_str(&format!("p{}", rng.below(5))),
        }
    }
    f
}

/// char.def with DEFAULT + 0..=6 further categories.
pub fn gen_char_def(rng: &mut Rng, want_space: Option<bool>) -> (String, Vec<String>) {
    let mut cats = vec!["DEFAULT".to_string()];
    let has_space = want_space.unwrap_or_else(|| rng.chance(7, 10));
    if has_space {
        cats.push("SPACE".into());
    }
    // (KANJINUMERIC: the concatenation of two other names, as in the stock dictionaries)
    let pool = ["ALPHA", "NUMERIC", "KANA", "KANJI", "SYM", "KANJINUMERIC"];
    let extra = rng.usize(pool.len() + 1);
    let mut idx: Vec<usize> = (0..pool.len()).collect();
    rng.shuffle(&mut idx);
    let mut chosen: Vec<usize> = idx[..extra].to_vec();
    chosen.sort_unstable();
    for i in chosen {
        cats.push(pool[i].to_string());
    }
    rng.shuffle(&mut cats[1..]);
    let mut out = String::new();
    if rng.chance(1, 4) {
        out.push_str("# generated char.def\n\n");
    }
    for c in &cats {
        let (inv, grp, len) = if c == "SPACE" && rng.chance(3, 4) {
            (0, 1, 0)
        } else {
            (rng.below(2), rng.below(2), rng.below(5))
        };
        out.push_str(&format!("{c} {inv} {grp} {len}\n"));
    }
    // candidate spans over the alphabet's code points
    let spans: &[(u32, u32)] = &[
        (0x0000, 0x0000),
        (0x0020, 0x0020),
        (0x3000, 0x3000),
        (0x0030, 0x0039),
        (0x0041, 0x005A),
        (0x0061, 0x007A),
        (0x0061, 0x0062),
        (0x0022, 0x002D),
        (0x00E9, 0x00E9),
        (0x3041, 0x3096),
        (0x3042, 0x3042),
        (0x30A1, 0x30FA),
        (0x4E00, 0x9FFF),
        (0x4EAC, 0x4EAC),
        (0xFF21, 0xFF3A),
        (0x0000, 0xFFFF),
        (0x0041, 0x30A2),
    ];
    let mut lines = vec![];
    for c in &cats {
        if c == "DEFAULT" && !rng.chance(1, 4) {
            continue;
        }
        if c == "SPACE" {
            lines.push(format!("0x0020 SPACE"));
            if rng.chance(1, 2) {
                lines.push("0x3000 SPACE".to_string());
            }
            if !rng.chance(1, 6) {
                continue;
            }
        }
        let n = 1 + rng.usize(3);
        for _ in 0..n {
            let (lo, hi) = *rng.pick(spans);
            if (lo, hi) == (0, 0xFFFF) && !rng.chance(1, 6) {
                continue;
            }
            let mut l = if lo == hi && rng.chance(1, 2) {
                format!("0x{lo:04X}")
            } else {
                format!("0x{lo:04X}..0x{hi:04X}")
            };
            l.push(' ');
            l.push_str(c);
            if rng.chance(1, 3) {
                let other = rng.pick(&cats).clone();
                if &other != c {
                    l.push(' ');
                    l.push_str(&other);
                }
            }
            if rng.chance(1, 8) {
                l.push_str(" # comment");
            } else if rng.chance(1, 12) {
                // a commented-out category
                l.push_str(" # ");
                let c = rng.pick(cats.as_slice()).clone();
                l.push_str(&c);
            }
            lines.push(l);
        }
    }
    // SPACE lines usually stay last so that spaces are SPACE-only most of the time
    if rng.chance(1, 3) {
        rng.shuffle(&mut lines);
    }
    // a later line that hands a span back to DEFAULT alone (it overrides earlier lines there)
    if rng.chance(1, 8) {
        let (lo, hi) = *rng.pick(spans);
        lines.push(format!("0x{lo:04X}..0x{hi:04X} DEFAULT"));
    }
    for l in lines {
        out.push_str(&l);
        out.push('\n');
    }
    (out, cats)
}

pub fn gen_unk_def(
    rng: &mut Rng,
    cats: &[String],
    num_left: usize,
    num_right: usize,
) -> String {
    let mut rows = vec![];
    for c in cats {
        let n = 1 + rng.usize(3);
        for i in 0..n {
            rows.push(format!(
                "{c},{},{},{},{}",
                rng.usize(num_left),
                rng.usize(num_right),
                gen_cost(rng),
                gen_feature(rng, &format!("UNK-{c}-"), i)
            ));
        }
    }
    if rng.chance(1, 3) {
        rng.shuffle(&mut rows);
    }
    let mut out = rows.join("\n");
    if rng.chance(3, 4) {
        out.push('\n');
    }
    out
}

fn surface_char(rng: &mut Rng) -> char {
    loop {
        let c = *rng.pick(ALPHABET);
        if c != '\u{0}' {
            return c;
        }
    }
}

pub fn gen_lex_rows(
    rng: &mut Rng,
    n: usize,
    num_left: usize,
    num_right: usize,
    tag: &str,
    seed_surfaces: &[String],
) -> (Vec<String>, Vec<String>) {
    let mut rows = vec![];
    let mut surfaces: Vec<String> = vec![];
    for i in 0..n {
        let surface = match rng.below(10) {
            // homograph of an earlier surface
            0 | 1 if !surfaces.is_empty() => rng.pick(&surfaces).clone(),
            // homograph / extension of a seed surface (system word, for user lexicons)
            2 | 3 if !seed_surfaces.is_empty() => {
                let mut s = rng.pick(seed_surfaces).clone();
                if rng.chance(1, 2) {
                    s.push(surface_char(rng));
                }
                s
            }
            // nested prefix / extension of an earlier surface
            4 if !surfaces.is_empty() => {
                let mut s = rng.pick(&surfaces).clone();
                s.push(surface_char(rng));
                s
            }
            5 if !surfaces.is_empty() => {
                let s = rng.pick(&surfaces).clone();
                let k = s.chars().count();
                if k > 1 {
                    s.chars().take(k - 1).collect()
                } else {
                    s
                }
            }
            _ => gen_surface(rng, 4),
        };
        rows.push(format!(
            "{},{},{},{},{}",
            csv_quote(&surface),
            rng.usize(num_left),
            rng.usize(num_right),
            gen_cost(rng),
            gen_feature(rng, tag, i)
        ));
        surfaces.push(surface);
    }
    (rows, surfaces)
}

pub fn gen_matrix_def(rng: &mut Rng, num_right: usize, num_left: usize) -> String {
    let mut out = format!("{num_right} {num_left}\n");
    let dense = rng.chance(2, 3);
    for r in 0..num_right {
        for l in 0..num_left {
            if dense || rng.chance(1, 2) {
                let c = match rng.below(30) {
                    0 => 32767,
                    1 => -32768,
                    _ => rng.range(-500, 500),
                };
                out.push_str(&format!("{r} {l} {c}\n"));
            }
        }
    }
    out
}

/// A bigram model: (bigram.right, bigram.left, bigram.cost) with `k` templates.
pub struct BigramModel {
    pub right: String,
    pub left: String,
    pub cost: String,
}

pub fn gen_bigram(rng: &mut Rng, k: usize, num_right: usize, num_left: usize, big: bool) -> BigramModel {
    // ordinary costs stay within [-300, 300]: every partial sum fits 16 bits
    let cost_at = |rng: &mut Rng, p: usize| -> i64 {
        if big && rng.chance(1, 12) {
            // a single entry outside the 16-bit range
            let m = rng.range(32768, 120_000);
            if rng.chance(1, 2) {
                m
            } else {
                -m
            }
        } else if big && rng.chance(1, 8) {
            // exactly at the ends of the 16-bit range
            *rng.pick(&[-32768i64, -32768, 32767, -32767])
        } else if big {
            let m = rng.range(5000, 16000);
            if ((p / 8) % 2 == 0) != rng.chance(1, 6) {
                m
            } else {
                -m
            }
        } else {
            rng.range(-300, 300)
        }
    };
    // vocabularies: a few strings per position, some shared across positions and sides
    let shared = ["S", "名", "x y", "q,c", "d\"q", " lead", "trail ", "\"q"];
    let mut vocab_r: Vec<Vec<String>> = vec![];
    let mut vocab_l: Vec<Vec<String>> = vec![];
    for p in 0..k {
        let nr = 1 + rng.usize(3);
        let nl = 1 + rng.usize(3);
        let mut vr: Vec<String> = (0..nr).map(|i| format!("R{p}v{i}")).collect();
        let mut vl: Vec<String> = (0..nl).map(|i| format!("L{p}v{i}")).collect();
        if rng.chance(1, 3) {
            vr.push(rng.pick(&shared).to_string());
        }
        if rng.chance(1, 3) {
            vl.push(rng.pick(&shared).to_string());
        }
        if rng.chance(1, 4) && p > 0 {
            // a string of another position
            vr.push(format!("R{}v0", rng.usize(p)));
            vl.push(format!("L{}v0", rng.usize(p)));
        }
        vocab_r.push(vr);
        vocab_l.push(vl);
    }
    let row = |rng: &mut Rng, vocab: &Vec<Vec<String>>| -> String {
        // ragged: sometimes fewer than k columns (but at least one)
        let cols = if rng.chance(1, 5) { 1 + rng.usize(k) } else { k };
        let mut fs = vec![];
        // now and then a whole aligned block of 8 positions (or more) has no feature at all,
        // followed by positions that do
        let star_block = if cols > 8 && rng.chance(1, 8) {
            let start = 8 * rng.usize(cols / 8);
            Some(start..start + 8 * (1 + rng.usize(2)))
        } else {
            None
        };
        for (i, v) in vocab.iter().take(cols).enumerate() {
            if star_block.as_ref().is_some_and(|b| b.contains(&i)) || rng.chance(1, 6) {
                fs.push("*".to_string());
            } else {
                fs.push(csv_quote(rng.pick(v.as_slice()).as_str()));
            }
        }
        fs.join(",")
    };
    let mut right = String::new();
    // at least one row of each side has all k columns so that the template count is k
    for id in 1..num_right {
        let mut r = row(rng, &vocab_r);
        if id == 1 {
            let full: Vec<String> = vocab_r.iter().map(|v| csv_quote(&v[0])).collect();
            r = full.join(",");
        }
        right.push_str(&format!("{id}\t{r}\n"));
    }
    let mut left = String::new();
    for id in 1..num_left {
        let r = row(rng, &vocab_l);
        left.push_str(&format!("{id}\t{r}\n"));
    }
    // cost table: pairs at the same position mostly (they are the ones that can fire), a few
    // cross-position pairs (fire only through shared strings), BOS/EOS lines
    let mut cost = String::new();
    let mut seen = std::collections::BTreeSet::new();
    let dense = rng.chance(1, 2);
    for p in 0..k {
        for rf in &vocab_r[p] {
            for lf in &vocab_l[p] {
                if rf.contains('/') || lf.contains('/') {
                    continue;
                }
                if (dense || rng.chance(1, 2)) && seen.insert((rf.clone(), lf.clone())) {
                    cost.push_str(&format!("{rf}/{lf}\t{}\n", cost_at(rng, p)));
                }
            }
        }
        if rng.chance(1, 3) {
            // BOS on the right side: "/lf"
            let lf = rng.pick(&vocab_l[p]).clone();
            if seen.insert((String::new(), lf.clone())) {
                cost.push_str(&format!("/{lf}\t{}\n", cost_at(rng, p)));
            }
        }
        if rng.chance(1, 3) {
            let rf = rng.pick(&vocab_r[p]).clone();
            if seen.insert((rf.clone(), String::new())) {
                cost.push_str(&format!("{rf}/\t{}\n", cost_at(rng, p)));
            }
        }
        if rng.chance(1, 6) {
            // unused feature strings (interned but referenced by no row)
            cost.push_str(&format!("unusedR{p}/unusedL{p}\t{}\n", rng.range(-300, 300)));
        }
    }
    if !rng.chance(1, 8) && cost.ends_with('\n') && rng.chance(1, 4) {
        cost.pop();
    }
    BigramModel { right, left, cost }
}

/// Fills `plan.files` with a complete valid world and returns what later generators need.
pub fn gen_world(rng: &mut Rng, plan: &mut Plan, cfg: &WorldCfg) -> WorldInfo {
    let mut r = rng.fork();
    let conn = *r.pick(&cfg.conns);
    let extreme = cfg.extreme_ids_one_in > 0 && r.chance(1, cfg.extreme_ids_one_in);
    let (num_left, num_right) = if extreme {
        let big = if conn == CONN_MATRIX {
            65535
        } else {
            *r.pick(&[65536usize, 65536, 65535])
        };
        let small = 2 + r.usize(4);
        if r.chance(1, 2) {
            (small, big)
        } else {
            (big, small)
        }
    } else if cfg.one_id_side_one_in > 0 && r.chance(1, cfg.one_id_side_one_in) {
        let other = 2 + r.usize(cfg.max_dim - 1); // (both sides empty is rejected: nothing to connect)
        if r.chance(1, 2) {
            (1, other)
        } else {
            (other, 1)
        }
    } else if cfg.huge_dim_one_in > 0 && r.chance(1, cfg.huge_dim_one_in) {
        (182 + r.usize(119), 182 + r.usize(119))
    } else if cfg.big_dim_one_in > 0 && r.chance(1, cfg.big_dim_one_in) {
        (22 + r.usize(27), 22 + r.usize(27))
    } else {
        (2 + r.usize(cfg.max_dim - 1), 2 + r.usize(cfg.max_dim - 1))
    };
    let (char_def, cats) = gen_char_def(&mut rng.fork(), None);
    let unk_def = gen_unk_def(&mut rng.fork(), &cats, num_left, num_right);
    let n_lex = 3 + r.usize(cfg.max_lex - 2);
    let (mut rows, mut surfaces) = gen_lex_rows(&mut rng.fork(), n_lex, num_left, num_right, "W", &[]);
    if cfg.threshold_sizes_one_in > 0 && r.chance(1, cfg.threshold_sizes_one_in) {
        let surface = surfaces[0].clone();
        let n = *r.pick(&[250usize, 251, 252, 254, 255, 256, 257]);
        for i in 0..n {
            rows.push(format!(
                "{},{},{},{},H{i}",
                csv_quote(&surface),
                r.usize(num_left),
                r.usize(num_right),
                r.range(-50, 50)
            ));
        }
        let len = *r.pick(&[250usize, 251, 252]);
        rows.push(format!("長い,{},{},0,{}", r.usize(num_left), r.usize(num_right), "f".repeat(len)));
        surfaces.push("長い".into());
        plan.set_param("threshold_sizes", n as i64);
    }
    if cfg.multiline_feature_one_in > 0 {
        for row in rows.iter_mut() {
            if r.chance(1, cfg.multiline_feature_one_in) {
                row.push_str(",\"two\nlines\"");
                plan.set_param("multiline_feature", 1);
            }
        }
    }
    if extreme {
        // words that carry the largest ids of both sides
        for (i, s) in ["極", "極a"].iter().enumerate() {
            rows.push(format!("{s},{},{},{},Wmax{i}", num_left - 1, num_right - 1, -200 - i as i64));
            surfaces.push(s.to_string());
        }
        plan.set_param("extreme_ids", 1);
    }
    let mut lex = rows.join("\n");
    if r.chance(3, 4) {
        lex.push('\n');
    }
    let mut templates = 0;
    let mut cr = rng.fork();
    if conn == CONN_MATRIX {
        plan.set_file("matrix.def", gen_matrix_def(&mut cr, num_right, num_left));
    } else {
        let lo = cfg.min_templates.max(1);
        let k = lo + cr.usize(cfg.max_templates - lo + 1);
        // 65535 rows: keep the files around a megabyte
        let k = if extreme { k.min(12) } else { k };
        // round 8: 1 default-configured bigram world in 12 is wide (13-40 templates: feature rows of
        // 2-5 eight-lane blocks, not only powers of two); decided without an extra draw
        let k = if !extreme && cfg.max_templates == 12 && cfg.min_templates < 12 && k == 12 {
            13 + (num_right as usize * 7 + num_left as usize * 3) % 28
        } else {
            k
        };
        templates = k;
        let big = cfg.big_costs_one_in > 0 && cr.chance(1, cfg.big_costs_one_in);
        plan.set_param("big_costs", big as i64);
        let m = gen_bigram(&mut cr, k, num_right, num_left, big);
        plan.set_file("bigram.right", m.right);
        plan.set_file("bigram.left", m.left);
        plan.set_file("bigram.cost", m.cost);
        plan.set_param("order_seed", (r.next_u64() >> 2) as i64);
    }
    plan.set_file("lex.csv", lex);
    plan.set_file("char.def", char_def);
    plan.set_file("unk.def", unk_def);
    plan.set_param("conn", conn);
    if num_left * num_right > 32768 {
        plan.set_param("huge_dims", 1);
    }
    WorldInfo {
        num_left,
        num_right,
        surfaces,
        has_space: cats.iter().any(|c| c == "SPACE"),
        categories: cats,
        conn,
        templates,
    }
}

/// A user lexicon (valid ids) with homographs of and overlaps with system surfaces.
pub fn gen_user_csv(rng: &mut Rng, info: &WorldInfo, tag: &str) -> String {
    let n = 1 + rng.usize(6);
    let (rows, _) = gen_lex_rows(
        rng,
        n,
        info.num_left,
        info.num_right,
        tag,
        &info.surfaces,
    );
    let mut out = rows.join("\n");
    if rng.chance(3, 4) {
        out.push('\n');
    }
    out
}

pub fn gen_sentence(rng: &mut Rng, surfaces: &[String]) -> String {
    match rng.below(12) {
        0 => String::new(),
        1 => " ".repeat(1 + rng.usize(3)),
        2 => "\u{3000} ".to_string(),
        _ => {
            let n = 1 + rng.usize(6);
            let mut s = String::new();
            for _ in 0..n {
                if !surfaces.is_empty() && rng.chance(1, 2) {
                    s.push_str(rng.pick(surfaces).as_str());
                } else {
                    let k = 1 + rng.usize(3);
                    for _ in 0..k {
                        s.push(*rng.pick(ALPHABET));
                    }
                }
                if s.chars().count() >= 14 {
                    break;
                }
            }
            s
        }
    }
}

/// Probe sentences: a fixed core plus seeded ones.
pub fn gen_probes(rng: &mut Rng, surfaces: &[String], n: usize) -> Vec<String> {
    let mut v = vec![String::new(), "  ".to_string()];
    for _ in 0..n {
        v.push(gen_sentence(rng, surfaces));
    }
    v
}

/// A permutation mapping list for ids `1..dim`: item i (1-origin) is the old id that becomes i.
pub fn gen_perm(rng: &mut Rng, dim: usize) -> Vec<u16> {
    let mut v: Vec<u16> = (1..dim).map(|x| x as u16).collect(); // dim may be 65536
    match rng.below(6) {
        0 => {} // identity
        1 if v.len() >= 2 => {
            let i = rng.usize(v.len());
            let j = rng.usize(v.len());
            v.swap(i, j);
        }
        2 => v.reverse(),
        _ => rng.shuffle(&mut v),
    }
    v
}

pub fn join_ids(v: &[u16]) -> String {
    v.iter().map(|x| x.to_string()).collect::<Vec<_>>().join(" ")
}

pub fn parse_ids(s: &str) -> Vec<u16> {
    s.split_whitespace().filter_map(|x| x.parse().ok()).collect()
}
