//! Storage faults applied to definition files at planning time (the plan then holds the
//! corrupted bytes explicitly): torn files, flipped/lost/inserted bytes, lost/duplicated/swapped
//! lines, lost/duplicated fields, numbers replaced by boundary values, and the documented
//! structural hazards of each format.

use crate::rng::Rng;

fn lines_of(data: &[u8]) -> Vec<Vec<u8>> {
    data.split_inclusive(|&b| b == b'\n').map(|l| l.to_vec()).collect()
}

fn join(lines: &[Vec<u8>]) -> Vec<u8> {
    lines.concat()
}

const BOUNDARY: &[&str] = &[
    "0", "1", "-1", "15", "16", "17", "18", "19", "255", "256", "32767", "32768", "-32768",
    "-32769", "65535", "65536", "4294967296", "", "x", "1.5", " 1", "+1", "0x1", "９",
];

/// Splits a line into fields by `sep` (no CSV quoting awareness on purpose: this is a fault).
fn split_fields(line: &[u8], sep: u8) -> (Vec<Vec<u8>>, Vec<u8>) {
    let (body, nl): (&[u8], &[u8]) = if line.ends_with(b"\n") {
        (&line[..line.len() - 1], b"\n")
    } else {
        (line, b"")
    };
    (body.split(|&b| b == sep).map(|f| f.to_vec()).collect(), nl.to_vec())
}

fn join_fields(fields: &[Vec<u8>], sep: u8, nl: &[u8]) -> Vec<u8> {
    let mut out = vec![];
    for (i, f) in fields.iter().enumerate() {
        if i > 0 {
            out.push(sep);
        }
        out.extend_from_slice(f);
    }
    out.extend_from_slice(nl);
    out
}

/// Generic single-edit corruption. `sep` is the field separator of the format.
/// Returns the corrupted bytes and a short label.
pub fn corrupt_generic(rng: &mut Rng, data: &[u8], sep: u8) -> (Vec<u8>, &'static str) {
    let mut lines = lines_of(data);
    match rng.below(17) {
        0 => (vec![], "file emptied"),
        1 if !data.is_empty() => {
            // torn file: cut at an arbitrary byte (often inside the last line)
            let k = if rng.chance(1, 2) {
                let last = lines.last().map(|l| l.len()).unwrap_or(0);
                data.len() - rng.usize(last.max(1)).min(data.len())
            } else {
                rng.usize(data.len())
            };
            (data[..k].to_vec(), "truncated")
        }
        2 if !data.is_empty() => {
            let mut v = data.to_vec();
            let i = rng.usize(v.len());
            v[i] ^= 1 << rng.below(8);
            (v, "bit flip")
        }
        3 if !data.is_empty() => {
            let mut v = data.to_vec();
            v.remove(rng.usize(v.len()));
            (v, "byte lost")
        }
        4 => {
            let mut v = data.to_vec();
            let i = rng.usize(v.len() + 1);
            let b = *rng.pick(&[b'\n', b',', b' ', b'"', b'\t', 0xFF, b'0', b'#', b'/', b'\r', b'*', 0]);
            v.insert(i, b);
            (v, "byte inserted")
        }
        5 if !lines.is_empty() => {
            lines.remove(rng.usize(lines.len()));
            (join(&lines), "line lost")
        }
        6 if !lines.is_empty() => {
            let i = rng.usize(lines.len());
            let mut l = lines[i].clone();
            if !l.ends_with(b"\n") {
                l.push(b'\n');
            }
            let j = rng.usize(lines.len() + 1);
            lines.insert(j, l);
            (join(&lines), "line duplicated")
        }
        7 if lines.len() >= 2 => {
            let i = rng.usize(lines.len());
            let j = rng.usize(lines.len());
            lines.swap(i, j);
            (join(&lines), "lines swapped")
        }
        8 | 9 if !lines.is_empty() => {
            let i = rng.usize(lines.len());
            let (mut f, nl) = split_fields(&lines[i], sep);
            let k = rng.usize(f.len());
            f.remove(k);
            lines[i] = join_fields(&f, sep, &nl);
            (join(&lines), "field lost")
        }
        10 if !lines.is_empty() => {
            let i = rng.usize(lines.len());
            let (mut f, nl) = split_fields(&lines[i], sep);
            let k = rng.usize(f.len());
            let dup = f[k].clone();
            f.insert(k, dup);
            lines[i] = join_fields(&f, sep, &nl);
            (join(&lines), "field duplicated")
        }
        11..=13 if !lines.is_empty() => {
            // a number replaced by a boundary value
            let i = rng.usize(lines.len());
            let (mut f, nl) = split_fields(&lines[i], sep);
            let numeric: Vec<usize> = (0..f.len())
                .filter(|&k| {
                    let t = String::from_utf8_lossy(&f[k]);
                    let t = t.trim();
                    !t.is_empty() && t.trim_start_matches('-').bytes().all(|b| b.is_ascii_digit())
                })
                .collect();
            if numeric.is_empty() {
                let k = rng.usize(f.len());
                f[k] = rng.pick(BOUNDARY).as_bytes().to_vec();
            } else {
                let k = *rng.pick(&numeric);
                f[k] = rng.pick(BOUNDARY).as_bytes().to_vec();
            }
            lines[i] = join_fields(&f, sep, &nl);
            (join(&lines), "number replaced by boundary value")
        }
        15 if !lines.is_empty() => {
            // a field replaced by a long run of multi-byte characters (hundreds of bytes; an
            // ASCII prefix of 0-2 bytes shifts where any byte limit falls inside a character)
            let i = rng.usize(lines.len());
            let (mut f, nl) = split_fields(&lines[i], sep);
            let k = rng.usize(f.len());
            let mut t = "x".repeat(rng.usize(3));
            let c = *rng.pick(&['長', 'あ', 'é', '\u{1F600}']);
            for _ in 0..60 + rng.usize(120) {
                t.push(c);
            }
            f[k] = t.into_bytes();
            lines[i] = join_fields(&f, sep, &nl);
            (join(&lines), "field replaced by a long multi-byte token")
        }
        14 if !data.is_empty() => {
            // final newline removed / added
            let mut v = data.to_vec();
            if v.ends_with(b"\n") {
                v.pop();
                (v, "final newline removed")
            } else {
                v.push(b'\n');
                (v, "final newline added")
            }
        }
        _ => {
            let mut v = data.to_vec();
            if rng.chance(1, 2) {
                v.extend_from_slice(b"\n\n");
            } else {
                v.splice(0..0, b"\n".iter().cloned());
            }
            (v, "blank lines added")
        }
    }
}

/// Structured hazards of char.def.
pub fn corrupt_char_def(rng: &mut Rng, data: &[u8]) -> (Vec<u8>, &'static str) {
    let text = String::from_utf8_lossy(data).into_owned();
    let mut lines: Vec<String> = text.lines().map(|s| s.to_string()).collect();
    let cat_lines: Vec<usize> = (0..lines.len())
        .filter(|&i| {
            let t = lines[i].trim();
            !t.is_empty() && !t.starts_with('#') && !t.starts_with("0x")
        })
        .collect();
    let range_lines: Vec<usize> = (0..lines.len())
        .filter(|&i| lines[i].trim().starts_with("0x"))
        .collect();
    let label = match rng.below(14) {
        0 if !cat_lines.is_empty() => {
            let i = *rng.pick(&cat_lines);
            let cols: Vec<&str> = lines[i].split_whitespace().collect();
            if cols.len() >= 4 {
                let len = *rng.pick(&["15", "16", "17", "255", "65535", "65536"]);
                lines[i] = format!("{} {} {} {}", cols[0], cols[1], cols[2], len);
            }
            "category length at/over the 4-bit limit"
        }
        1 => {
            let n = *rng.pick(&[12usize, 17, 18, 19, 20, 31, 32, 33, 40]);
            for k in 0..n {
                lines.insert(
                    rng.usize(lines.len() + 1),
                    format!("X{k} {} {} {}", rng.below(2), rng.below(2), rng.below(4)),
                );
            }
            if rng.chance(2, 3) {
                // and use some of them
                for _ in 0..3 {
                    let k = rng.usize(n);
                    let cp = *rng.pick(&[0x61u32, 0x3042, 0x4EAC, 0x20, 0x41]);
                    lines.push(format!("0x{cp:04X} X{k}"));
                }
            }
            "many categories (around the 18-bit set limit)"
        }
        2 => {
            for k in 0..260 {
                lines.push(format!("Y{k} 0 1 0"));
            }
            if rng.chance(1, 2) {
                lines.push("0x0061 Y259".to_string());
            }
            "more than 255 categories"
        }
        3 if !range_lines.is_empty() => {
            let i = *rng.pick(&range_lines);
            let first = lines[i].split_whitespace().next().unwrap_or("0x0041").to_string();
            lines[i] = match rng.below(4) {
                0 => format!("{first} # no category at all"),
                1 => format!("{first} #COMMENTED"),
                2 => format!("{first}  "),
                _ => first,
            };
            "range line without category"
        }
        4 if !range_lines.is_empty() => {
            let i = *rng.pick(&range_lines);
            lines[i].push_str(" UNDEFINEDCAT");
            "range line with undefined extra category"
        }
        5 if !range_lines.is_empty() => {
            let i = *rng.pick(&range_lines);
            let mut cols: Vec<String> = lines[i].split_whitespace().map(|s| s.to_string()).collect();
            if cols.len() >= 2 {
                cols[1] = "UNDEFINEDCAT".into();
            }
            lines[i] = cols.join(" ");
            "range line with undefined first category"
        }
        6 => {
            let (lo, hi) = *rng.pick(&[
                (0x0062u32, 0x0061u32),
                (0xFFFF, 0x10000),
                (0x10000, 0x10001),
                (0x0, 0xFFFF),
                (0xFFFE, 0xFFFF),
                (0x1F600, 0x1F600),
                (0x41, 0x41),
            ]);
            lines.push(format!("0x{lo:04X}..0x{hi:04X} DEFAULT"));
            "reversed / out-of-BMP / boundary range"
        }
        7 if !cat_lines.is_empty() => {
            // category definition removed although ranges and unk.def refer to it
            let i = *rng.pick(&cat_lines);
            lines.remove(i);
            "category definition lost"
        }
        8 if !cat_lines.is_empty() => {
            let i = *rng.pick(&cat_lines);
            let cols: Vec<&str> = lines[i].split_whitespace().collect();
            if cols.len() >= 4 {
                let bad = *rng.pick(&["2", "-1", "", "x", "01"]);
                lines[i] = if rng.chance(1, 2) {
                    format!("{} {} {} {}", cols[0], bad, cols[2], cols[3])
                } else {
                    format!("{} {} {} {}", cols[0], cols[1], bad, cols[3])
                };
            }
            "invoke/group not 0 or 1"
        }
        9 if !range_lines.is_empty() => {
            let i = *rng.pick(&range_lines);
            lines[i] = lines[i].replacen("0x", *rng.pick(&["0X", "0x0x", "0x+", "0x-", "0xG", "x", "0x "]), 1);
            "malformed hex"
        }
        10 => {
            lines.retain(|l| !l.trim_start().starts_with("DEFAULT"));
            "DEFAULT category lost"
        }
        11 if !cat_lines.is_empty() => {
            // redefinition of a category with other parameters
            let i = *rng.pick(&cat_lines);
            let name = lines[i].split_whitespace().next().unwrap_or("DEFAULT").to_string();
            lines.push(format!("{name} {} {} {}", rng.below(2), rng.below(2), rng.below(5)));
            "category redefined"
        }
        12 => {
            lines.push("SPACE 0 1 0".to_string());
            lines.push("0x0020 SPACE".to_string());
            "SPACE added"
        }
        _ => {
            lines.push(format!("0x{:04X}..0x{:04X} DEFAULT", 0x3040, 0x30FF));
            "overlapping range added"
        }
    };
    let mut out = lines.join("\n");
    if !out.is_empty() && rng.chance(3, 4) {
        out.push('\n');
    }
    (out.into_bytes(), label)
}

/// Structured hazards of matrix.def (the allocation implied by the header stays bounded).
pub fn corrupt_matrix_def(rng: &mut Rng, data: &[u8]) -> (Vec<u8>, &'static str) {
    let text = String::from_utf8_lossy(data).into_owned();
    let mut lines: Vec<String> = text.lines().map(|s| s.to_string()).collect();
    let (nr, nl) = {
        let h: Vec<usize> = lines
            .first()
            .map(|l| l.split(' ').filter_map(|x| x.parse().ok()).collect())
            .unwrap_or_default();
        (h.first().copied().unwrap_or(2), h.get(1).copied().unwrap_or(2))
    };
    let label = match rng.below(10) {
        0 => {
            lines.clear();
            "matrix.def emptied"
        }
        1 if !lines.is_empty() => {
            lines[0] = format!("{nr}");
            "header with one field"
        }
        2 if !lines.is_empty() => {
            lines[0] = format!("{nr} {nl} 0");
            "header with three fields"
        }
        3 if !lines.is_empty() => {
            lines[0] = match rng.below(5) {
                0 => format!("{} {nl}", nr.saturating_sub(1)),
                1 => format!("{nr} {}", nl.saturating_sub(1)),
                2 => "0 0".to_string(),
                3 => format!("{nl} {nr}"),
                _ => "1 1".to_string(),
            };
            "header dimensions reduced/swapped"
        }
        4 => {
            lines.push(match rng.below(4) {
                0 => format!("{nr} 0 5"),
                1 => format!("0 {nl} 5"),
                2 => format!("{} {} 5", nr + 7, nl + 7),
                _ => "65535 65535 5".to_string(),
            });
            "entry with id == dimension"
        }
        5 => {
            lines.push(format!("0 0 {}", rng.pick(&["32768", "-32769", "1e3", "", "x", "99999999999"])));
            "entry with cost out of range"
        }
        6 => {
            lines.push(rng.pick(&["0 0", "0 0 1 1", "0  0 1", " 0 0 1", "0\t0\t1"]).to_string());
            "entry with wrong field count"
        }
        7 if !lines.is_empty() => {
            lines[0] = format!("{nr}  {nl}");
            "header with double space"
        }
        8 if !lines.is_empty() => {
            lines.insert(0, String::new());
            "blank first line"
        }
        _ => {
            if lines.len() > 1 {
                lines.truncate(1);
            }
            "body lost"
        }
    };
    let mut out = lines.join("\n");
    if !out.is_empty() && rng.chance(3, 4) {
        out.push('\n');
    }
    (out.into_bytes(), label)
}

/// Structured hazards of lexicon-style CSV files (lex.csv, unk.def, user CSV).
pub fn corrupt_lex_csv(rng: &mut Rng, data: &[u8], nl: usize, nr: usize) -> (Vec<u8>, &'static str) {
    let mut v = data.to_vec();
    if !v.is_empty() && !v.ends_with(b"\n") && rng.chance(1, 2) {
        v.push(b'\n');
    }
    let label = match rng.below(12) {
        0 => {
            v.extend_from_slice(b"zz,0,0,1");
            "last row ends right after the cost field"
        }
        1 => {
            v.extend_from_slice(b"zz,0,0,1,");
            "last row ends with a comma after the cost field"
        }
        2 => {
            v.extend_from_slice(b"zz,0,0,1\n");
            "row without feature column"
        }
        3 => {
            v.extend_from_slice(b"zz,0,0,1,\n");
            "row with empty feature"
        }
        4 => {
            v.extend_from_slice(b"zz,0,0,1,");
            v.extend(std::iter::repeat_n(b'f', *rng.pick(&[4095usize, 4096, 4097, 9000])));
            v.push(b'\n');
            "field around the 4096-byte buffer size"
        }
        5 => {
            v.extend(std::iter::repeat_n(b's', *rng.pick(&[4095usize, 4096, 4097])));
            v.extend_from_slice(b",0,0,1,F\n");
            "surface around the 4096-byte buffer size"
        }
        6 => {
            v.extend_from_slice(b"z\xe3\x81,0,0,1,F\n");
            "invalid UTF-8 in surface"
        }
        7 => {
            v.extend_from_slice(b"zz,0,0,1,F\xff\n");
            "invalid UTF-8 in feature"
        }
        8 => {
            v.extend_from_slice(format!("zz,{},{},1,F\n", nl, nr.saturating_sub(1)).as_bytes());
            "left id == num_left"
        }
        9 => {
            v.extend_from_slice(format!("zz,0,{},1,F\n", nr).as_bytes());
            "right id == num_right"
        }
        10 => {
            v.extend_from_slice(b"\"zz,0,0,1,F\n");
            "unterminated quote"
        }
        _ => {
            v.extend_from_slice(b",0,0,1,F\r\nyy,0,0,1,G\r\n");
            "empty surface and CRLF rows"
        }
    };
    (v, label)
}

/// Structured hazards of the bigram files.
pub fn corrupt_bigram(rng: &mut Rng, name: &str, data: &[u8]) -> (Vec<u8>, &'static str) {
    let text = String::from_utf8_lossy(data).into_owned();
    let mut lines: Vec<String> = text.lines().map(|s| s.to_string()).collect();
    let label = if name == "bigram.cost" {
        match rng.below(6) {
            0 => {
                lines.push("a/b/c\t5".into());
                "two slashes"
            }
            1 => {
                lines.push("ab\t5".into());
                "no slash"
            }
            2 => {
                lines.push(format!("a/b\t{}", rng.pick(&["", "x", "2147483648", "-2147483649", "1.5"])));
                "bad cost"
            }
            3 => {
                lines.push("a/b 5".into());
                "no tab"
            }
            4 => {
                lines.push("/\t7".into());
                "BOS/EOS pair line"
            }
            _ => {
                lines.push("*/*\t9".into());
                "asterisk features"
            }
        }
    } else {
        match rng.below(8) {
            7 => {
                // a feature field around the 4096-byte CSV buffer size
                let n = lines.len() + 1;
                let len = *rng.pick(&[4095usize, 4096, 4097, 9000]);
                lines.push(format!("{n}\tzz,{}", "f".repeat(len)));
                "feature field around the 4096-byte buffer size"
            }
            0 if lines.len() >= 2 => {
                let i = rng.usize(lines.len());
                let j = rng.usize(lines.len());
                lines.swap(i, j);
                "id lines out of order"
            }
            1 => {
                lines.clear();
                "file emptied"
            }
            2 if !lines.is_empty() => {
                let i = rng.usize(lines.len());
                lines[i] = lines[i].replacen('\t', " ", 1);
                "tab lost"
            }
            3 if !lines.is_empty() => {
                let i = rng.usize(lines.len());
                lines[i].push_str("\textra");
                "extra tab column"
            }
            4 => {
                lines.insert(0, "0\tx".into());
                "id 0 line"
            }
            5 if !lines.is_empty() => {
                let i = rng.usize(lines.len());
                let id = lines[i].split('\t').next().unwrap_or("1").to_string();
                lines[i] = format!("{id}\t");
                "row with an empty feature list"
            }
            _ => {
                let n = lines.len() + 1;
                let cols = 1 + rng.usize(20);
                lines.push(format!("{n}\t{}", vec!["zz"; cols].join(",")));
                "extra id with another column count"
            }
        }
    };
    let mut out = lines.join("\n");
    if !out.is_empty() && rng.chance(3, 4) {
        out.push('\n');
    }
    (out.into_bytes(), label)
}

/// True if the matrix.def header would make the builder allocate more than 2^22 cells
/// (accepted by design; excluded so that the simulator itself stays within memory).
pub fn matrix_too_big(data: &[u8]) -> bool {
    let first = data.split(|&b| b == b'\n').next().unwrap_or(&[]);
    let t = String::from_utf8_lossy(first);
    let nums: Vec<u64> = t.split(' ').filter_map(|x| x.parse::<u16>().ok().map(u64::from)).collect();
    nums.len() == 2 && nums[0] * nums[1] > (1 << 22)
}
