//! The explicit plan of one simulated run. Planning (PRNG-driven) produces it, execution
//! (PRNG-free) consumes it, the minimiser edits it, and the replay file is its JSON.

use std::collections::BTreeMap;

use crate::json::J;
use crate::rng::fnv1a;

/// Fault plan of one stream (reader or sink).
#[derive(Clone, Debug, Default, PartialEq, Eq)]
pub struct Fault {
    /// Cycle of maximal transfer sizes per call (empty = unlimited). Benign.
    pub chunks: Vec<u32>,
    /// Call indices (0-based) that return `ErrorKind::Interrupted` instead of transferring. Benign.
    pub intr: Vec<u32>,
    /// Byte offset at which the hard fault fires (the call that would transfer the byte at this
    /// offset fails instead; sticky afterwards).
    pub hard_at: Option<u64>,
    /// 0 = `ErrorKind::Other`, 1 = `ErrorKind::WouldBlock`, 2 = `Ok(0)` (sink: device full;
    /// reader: premature EOF = truncated file), 3 = `ErrorKind::UnexpectedEof`.
    pub hard_kind: u8,
    /// Sinks only: how the sink is handed to the code under test. 0 = `&mut sink`; otherwise *by
    /// value* inside a buffering adapter the callee then owns (1 = `BufWriter` 8 KiB, 2 = `BufWriter`
    /// of 16 bytes, 3 = `LineWriter`): bytes the callee leaves in the adapter reach the medium only
    /// when the adapter is dropped, where errors are lost - the callee has to flush.
    pub wrap: u8,
}

impl Fault {
    pub fn is_benign(&self) -> bool {
        self.hard_at.is_none()
    }
    pub fn is_none(&self) -> bool {
        self.chunks.is_empty() && self.intr.is_empty() && self.hard_at.is_none() && self.wrap == 0
    }
    pub fn to_json(&self) -> J {
        let mut o = J::obj();
        if !self.chunks.is_empty() {
            o.put("chunks", J::arr_i(&self.chunks));
        }
        if !self.intr.is_empty() {
            o.put("intr", J::arr_i(&self.intr));
        }
        if let Some(h) = self.hard_at {
            o.put("hard_at", J::i(h));
            o.put("hard_kind", J::i(self.hard_kind));
        }
        if self.wrap != 0 {
            o.put("wrap", J::i(self.wrap));
        }
        o
    }
    pub fn from_json(j: &J) -> Result<Self, String> {
        let mut f = Fault::default();
        if let Some(a) = j.get("chunks").and_then(|x| x.as_arr()) {
            f.chunks = a.iter().filter_map(|x| x.as_i64()).map(|x| x as u32).collect();
        }
        if let Some(a) = j.get("intr").and_then(|x| x.as_arr()) {
            f.intr = a.iter().filter_map(|x| x.as_i64()).map(|x| x as u32).collect();
        }
        if let Some(h) = j.get("hard_at").and_then(|x| x.as_i64()) {
            f.hard_at = Some(h as u64);
            f.hard_kind = j.get("hard_kind").and_then(|x| x.as_i64()).unwrap_or(0) as u8;
        }
        f.wrap = j.get("wrap").and_then(|x| x.as_i64()).unwrap_or(0) as u8;
        Ok(f)
    }
}

/// One operation of the history, executed by simulated task `task`.
#[derive(Clone, Debug, Default, PartialEq, Eq)]
pub struct Op {
    pub task: u32,
    pub kind: String,
    pub n: Vec<i64>,
    pub s: Vec<String>,
    /// Fault plans by stream name.
    pub faults: BTreeMap<String, Fault>,
}

impl Op {
    pub fn new(kind: &str) -> Self {
        Op {
            kind: kind.to_string(),
            ..Default::default()
        }
    }
    pub fn task(mut self, t: u32) -> Self {
        self.task = t;
        self
    }
    pub fn n(mut self, xs: &[i64]) -> Self {
        self.n = xs.to_vec();
        self
    }
    pub fn s(mut self, x: &str) -> Self {
        self.s.push(x.to_string());
        self
    }
    pub fn fault(mut self, stream: &str, f: Fault) -> Self {
        if !f.is_none() {
            self.faults.insert(stream.to_string(), f);
        }
        self
    }
    pub fn get_fault(&self, stream: &str) -> Fault {
        self.faults.get(stream).cloned().unwrap_or_default()
    }
    pub fn num(&self, i: usize) -> i64 {
        self.n.get(i).copied().unwrap_or(0)
    }
    pub fn str(&self, i: usize) -> &str {
        self.s.get(i).map(|s| s.as_str()).unwrap_or("")
    }
    pub fn has_hard_fault(&self) -> bool {
        self.faults.values().any(|f| f.hard_at.is_some())
    }
    pub fn to_json(&self) -> J {
        let mut o = J::obj().set("k", J::s(&self.kind));
        if self.task != 0 {
            o.put("t", J::i(self.task));
        }
        if !self.n.is_empty() {
            o.put("n", J::arr_i(&self.n));
        }
        if !self.s.is_empty() {
            o.put("s", J::arr_s(&self.s));
        }
        if !self.faults.is_empty() {
            let mut f = J::obj();
            for (k, v) in &self.faults {
                f.put(k, v.to_json());
            }
            o.put("f", f);
        }
        o
    }
    pub fn from_json(j: &J) -> Result<Self, String> {
        let mut op = Op::new(j.get("k").and_then(|x| x.as_str()).ok_or("op without k")?);
        op.task = j.get("t").and_then(|x| x.as_i64()).unwrap_or(0) as u32;
        if let Some(a) = j.get("n").and_then(|x| x.as_arr()) {
            op.n = a.iter().filter_map(|x| x.as_i64()).collect();
        }
        if let Some(a) = j.get("s").and_then(|x| x.as_arr()) {
            op.s = a
                .iter()
                .filter_map(|x| x.as_str())
                .map(|x| x.to_string())
                .collect();
        }
        if let Some(J::Obj(m)) = j.get("f") {
            for (k, v) in m {
                op.faults.insert(k.clone(), Fault::from_json(v)?);
            }
        }
        Ok(op)
    }
    /// One-line rendering for event logs and evidence samples.
    pub fn brief(&self) -> String {
        let mut t = format!("t{}:{}", self.task, self.kind);
        if !self.n.is_empty() {
            t.push_str(&format!("{:?}", self.n));
        }
        for s in &self.s {
            let short: String = s.chars().take(24).collect();
            t.push_str(&format!(" {short:?}"));
        }
        for (k, f) in &self.faults {
            t.push_str(&format!(" !{k}"));
            if let Some(h) = f.hard_at {
                t.push_str(&format!("@{h}k{}", f.hard_kind));
            }
            if !f.chunks.is_empty() {
                t.push_str("~c");
            }
            if !f.intr.is_empty() {
                t.push_str("~i");
            }
            if f.wrap != 0 {
                t.push_str(&format!("~w{}", f.wrap));
            }
        }
        t
    }
}

#[derive(Clone, Debug, Default, PartialEq, Eq)]
pub struct Plan {
    pub prop: String,
    pub seed: u64,
    pub run: u64,
    /// World: every definition file / source text by name.
    pub files: BTreeMap<String, Vec<u8>>,
    /// Scalar knobs (connector kind, option sets, order seeds, ...).
    pub params: BTreeMap<String, i64>,
    /// The interleaved operation history (global order = the schedule).
    pub ops: Vec<Op>,
}

fn bytes_to_json(b: &[u8]) -> J {
    match std::str::from_utf8(b) {
        Ok(s) => J::obj().set("text", J::s(s)),
        Err(_) => {
            let mut h = String::with_capacity(b.len() * 2);
            for x in b {
                h.push_str(&format!("{x:02x}"));
            }
            J::obj().set("hex", J::s(&h))
        }
    }
}

fn bytes_from_json(j: &J) -> Result<Vec<u8>, String> {
    if let Some(t) = j.get("text").and_then(|x| x.as_str()) {
        return Ok(t.as_bytes().to_vec());
    }
    if let Some(h) = j.get("hex").and_then(|x| x.as_str()) {
        let hb = h.as_bytes();
        if hb.len() % 2 != 0 {
            return Err("odd hex".into());
        }
        let mut out = Vec::with_capacity(hb.len() / 2);
        for i in (0..hb.len()).step_by(2) {
            let t = std::str::from_utf8(&hb[i..i + 2]).map_err(|e| e.to_string())?;
            out.push(u8::from_str_radix(t, 16).map_err(|e| e.to_string())?);
        }
        return Ok(out);
    }
    // compact form for hand-written witnesses with very many similar rows:
    // {"numbered_rows": N, "suffix": S, "tail": T} = "1S\n2S\n...NS\n" followed by T
    if let Some(n) = j.get("numbered_rows").and_then(|x| x.as_i64()) {
        let suffix = j.get("suffix").and_then(|x| x.as_str()).unwrap_or("");
        let mut out = String::new();
        for i in 1..=n {
            out.push_str(&format!("{i}{suffix}\n"));
        }
        out.push_str(j.get("tail").and_then(|x| x.as_str()).unwrap_or(""));
        return Ok(out.into_bytes());
    }
    Err("file without text/hex".into())
}

impl Plan {
    pub fn new(prop: &str, seed: u64, run: u64) -> Self {
        Plan {
            prop: prop.to_string(),
            seed,
            run,
            ..Default::default()
        }
    }
    pub fn file(&self, name: &str) -> &[u8] {
        self.files.get(name).map(|v| v.as_slice()).unwrap_or(&[])
    }
    pub fn file_str(&self, name: &str) -> String {
        String::from_utf8_lossy(self.file(name)).into_owned()
    }
    pub fn has_file(&self, name: &str) -> bool {
        self.files.contains_key(name)
    }
    pub fn set_file(&mut self, name: &str, data: impl Into<Vec<u8>>) {
        self.files.insert(name.to_string(), data.into());
    }
    pub fn param(&self, name: &str) -> i64 {
        self.params.get(name).copied().unwrap_or(0)
    }
    pub fn set_param(&mut self, name: &str, v: i64) {
        self.params.insert(name.to_string(), v);
    }
    pub fn to_json(&self) -> J {
        let mut files = J::obj();
        for (k, v) in &self.files {
            files.put(k, bytes_to_json(v));
        }
        let mut params = J::obj();
        for (k, v) in &self.params {
            params.put(k, J::Int(*v));
        }
        J::obj()
            .set("property", J::s(&self.prop))
            .set("seed", J::Str(self.seed.to_string()))
            .set("run", J::Str(self.run.to_string()))
            .set("files", files)
            .set("params", params)
            .set("ops", J::Arr(self.ops.iter().map(|o| o.to_json()).collect()))
    }
    pub fn from_json(j: &J) -> Result<Self, String> {
        let mut p = Plan::new(
            j.get("property")
                .and_then(|x| x.as_str())
                .ok_or("no property")?,
            j.get("seed")
                .and_then(|x| x.as_str())
                .and_then(|x| x.parse().ok())
                .unwrap_or(0),
            j.get("run")
                .and_then(|x| x.as_str())
                .and_then(|x| x.parse().ok())
                .unwrap_or(0),
        );
        if let Some(J::Obj(m)) = j.get("files") {
            for (k, v) in m {
                p.files.insert(k.clone(), bytes_from_json(v)?);
            }
        }
        if let Some(J::Obj(m)) = j.get("params") {
            for (k, v) in m {
                p.params.insert(k.clone(), v.as_i64().ok_or("bad param")?);
            }
        }
        if let Some(a) = j.get("ops").and_then(|x| x.as_arr()) {
            for o in a {
                p.ops.push(Op::from_json(o)?);
            }
        }
        Ok(p)
    }
    /// Stable hash of the whole plan (distinctness measure).
    pub fn hash(&self) -> u64 {
        let mut j = self.to_json();
        // provenance is not part of the case
        j.put("seed", J::Null);
        j.put("run", J::Null);
        fnv1a(j.to_string_compact().as_bytes())
    }
    /// Hash of the operation-kind sequence (history shape).
    pub fn history_hash(&self) -> u64 {
        let mut t = String::new();
        for o in &self.ops {
            t.push_str(&o.kind);
            t.push(';');
        }
        fnv1a(t.as_bytes())
    }
    /// Hash of the task-choice sequence (interleaving).
    pub fn interleaving_hash(&self) -> u64 {
        let t: Vec<u8> = self.ops.iter().map(|o| o.task as u8).collect();
        fnv1a(&t)
    }
    pub fn brief(&self) -> J {
        let mut params = J::obj();
        for (k, v) in &self.params {
            params.put(k, J::Int(*v));
        }
        J::obj()
            .set("run", J::i(self.run))
            .set("params", params)
            .set(
                "files",
                J::Arr(
                    self.files
                        .iter()
                        .map(|(k, v)| J::s(&format!("{k}:{}B", v.len())))
                        .collect(),
                ),
            )
            .set(
                "ops",
                J::Arr(self.ops.iter().map(|o| J::s(&o.brief())).collect()),
            )
    }
}
