//! C04 — a worker's result depends only on dictionary, options and sentence (histories of a reused
//! worker; op-level interleavings of several workers over one shared tokenizer).
//! C13 — reordering statistics always yield a valid, frequency-ordered mapping (histories of
//! reset/tokenize/update on one worker against a reference counter recomputed from lattice dumps).

use std::collections::BTreeMap;
use std::marker::PhantomData;

use vibrato::tokenizer::worker::Worker;
use vibrato::{Dictionary, Tokenizer};

use crate::core::{catch, panic_violation, Check, Ctx, Scenario, ScenarioInfo, Tier, Violation};
use crate::dictops::{map_ids, must};
use crate::obs::{make_tokenizer, option_sets, read_tokens, OptSet, Tok};
use crate::plan::{Op, Plan};
use crate::rng::Rng;
use crate::scen_image::reference_dict;
use crate::world::{gen_perm, gen_sentence, gen_user_csv, gen_world, join_ids, WorldCfg, WorldInfo};

// --- Send + Sync probe that yields a value instead of a compile error --------------------------
trait NotSendSync {
    const IS: bool = false;
}
impl<T: ?Sized> NotSendSync for T {}
struct Probe<T: ?Sized>(PhantomData<T>);
#[allow(dead_code)]
impl<T: ?Sized + Send + Sync> Probe<T> {
    const IS: bool = true;
}
fn tokenizer_is_send_sync() -> bool {
    <Probe<Tokenizer>>::IS && <Probe<Dictionary>>::IS
}

fn gen_worker_world(rng: &mut Rng, plan: &mut Plan) -> (WorldInfo, OptSet) {
    // one bigram world in six has connection costs of thousands, single entries beyond 16 bits
    let cfg = WorldCfg {
        big_costs_one_in: 6,
        ..WorldCfg::default()
    };
    let info = gen_world(rng, plan, &cfg);
    if rng.chance(1, 3) {
        plan.set_file("user.csv", gen_user_csv(&mut rng.fork(), &info, "U"));
    }
    if rng.chance(1, 4) {
        plan.set_file("lmap", join_ids(&gen_perm(&mut rng.fork(), info.num_left)));
        plan.set_file("rmap", join_ids(&gen_perm(&mut rng.fork(), info.num_right)));
    }
    plan.set_param("user_first", rng.below(2) as i64);
    let opts = option_sets(info.has_space);
    let oi = rng.usize(opts.len());
    plan.set_param("opt", oi as i64);
    (info, opts[oi])
}

fn plan_tokenizer(plan: &Plan, ctx: &mut Ctx) -> Result<Tokenizer, Violation> {
    let dict = reference_dict(plan, ctx)?;
    let opts = option_sets(crate::obs::has_space(&dict));
    let o = opts[(plan.param("opt") as usize).min(opts.len() - 1)];
    Ok(make_tokenizer(dict, o))
}

/// Sentence sequence of one task, biased to the hazards of buffer reuse.
fn gen_sentence_seq(rng: &mut Rng, info: &WorldInfo, n: usize) -> Vec<String> {
    let mut v: Vec<String> = vec![];
    for _ in 0..n {
        let s = match rng.below(10) {
            0 if !v.is_empty() => v[v.len() - 1].clone(), // identical twice
            1 if !v.is_empty() => {
                // shorter after longer: a prefix of the previous one
                let p = &v[v.len() - 1];
                let k = p.chars().count();
                p.chars().take(k / 2).collect()
            }
            2 => String::new(),
            3 if info.has_space => " ".repeat(1 + rng.usize(3)),
            // the previous sentence continued: a suffix that repeats its last character (so that
            // a run of one character category crosses the seam), or any other continuation
            5 | 6 if !v.is_empty() && !v[v.len() - 1].is_empty() => {
                let p = v[v.len() - 1].clone();
                let last = p.chars().last().unwrap();
                let mut s = p;
                if rng.chance(2, 3) {
                    for _ in 0..1 + rng.usize(3) {
                        s.push(last);
                    }
                }
                if rng.chance(1, 2) {
                    s.push_str(&gen_sentence(rng, &info.surfaces));
                }
                s
            }
            4 => {
                // long
                let mut s = String::new();
                for _ in 0..3 {
                    s.push_str(&gen_sentence(rng, &info.surfaces));
                }
                s
            }
            _ => gen_sentence(rng, &info.surfaces),
        };
        v.push(s);
    }
    v
}

pub struct WorkerScenario;

struct TaskState<'t> {
    worker: Worker<'t>,
    sentence: Option<String>,
    tokenized: bool,
    counter: bool,
}

fn fresh_tokens(tokenizer: &Tokenizer, s: &str) -> Result<Vec<Tok>, Violation> {
    catch(|| {
        let mut w = tokenizer.new_worker();
        w.reset_sentence(s);
        w.tokenize();
        read_tokens(&w)
    })
    .map_err(|p| panic_violation("C04.fresh", &format!("fresh worker on {s:?}"), &p))
}

impl Scenario for WorkerScenario {
    fn id(&self) -> &'static str {
        "C04"
    }
    fn runs(&self, tier: Tier) -> u64 {
        match tier {
            Tier::Quick => 100_000,
            Tier::Thorough => 3_000_000,
        }
    }
    fn plan(&self, rng: &mut Rng, _tier: Tier, seed: u64, run: u64) -> Plan {
        let mut plan = Plan::new("C04", seed, run);
        let (info, _) = gen_worker_world(rng, &mut plan);
        let n_tasks = match rng.below(10) {
            0..=3 => 1,
            4..=6 => 2,
            7..=8 => 3,
            _ => 4,
        };
        // per-task programs
        let mut programs: Vec<Vec<Op>> = vec![];
        // now and then one worker lives through a very long history between two sentences: as many
        // tokenizations of a short sentence as 8- and 16-bit generation counters need to wrap
        let burst_run = rng.chance(1, 150);
        for t in 0..n_tasks {
            let mut r = rng.fork();
            let n_sent = 1 + r.usize(6) + usize::from(burst_run);
            let sents = gen_sentence_seq(&mut r, &info, n_sent);
            let mut prog = vec![];
            let mut counter = false;
            let burst_after = if burst_run && t == 0 { r.usize(n_sent - 1) } else { usize::MAX };
            for (si, s) in sents.iter().enumerate() {
                if si > 0 && si - 1 == burst_after {
                    let short: String = sents.iter().flat_map(|x| x.chars()).find(|c| !c.is_whitespace()).unwrap_or('a').to_string();
                    prog.push(Op::new("Reset").task(t).s(&short));
                    // N tokenizations here + the next sentence's = N + 1 lattice resets
                    let n = *r.pick(&[65535i64, 65535, 65535, 65534, 65536, 255, 256, 131071]);
                    prog.push(Op::new("Burst").task(t).n(&[n]));
                    prog.push(Op::new("ReadAll").task(t));
                }
                if r.chance(1, 12) {
                    prog.push(Op::new("Recreate").task(t));
                    counter = false;
                    if r.chance(1, 2) {
                        // tokenize (and read) before the new worker is given a sentence
                        prog.push(Op::new("Tokenize").task(t));
                        prog.push(Op::new("ReadAll").task(t));
                    }
                }
                prog.push(Op::new("Reset").task(t).s(s));
                let n_tok = match r.below(6) {
                    0 => 0,
                    1 | 2 => 2,
                    3 if r.chance(1, 2) => 3,
                    _ => 1,
                };
                for k in 0..n_tok {
                    prog.push(Op::new("Tokenize").task(t));
                    if r.chance(1, 3) || k + 1 == n_tok {
                        match r.below(4) {
                            0 => prog.push(Op::new("ReadOne").task(t).n(&[r.range(0, 7)])),
                            1 => prog.push(Op::new("Iter").task(t)),
                            _ => prog.push(Op::new("ReadAll").task(t)),
                        }
                    }
                    if r.chance(1, 5) && !s.is_empty() {
                        if !counter {
                            prog.push(Op::new("InitCounter").task(t));
                            counter = true;
                        }
                        prog.push(Op::new("UpdateCounts").task(t));
                        if r.chance(1, 2) {
                            prog.push(Op::new("ReadAll").task(t));
                        }
                    }
                }
            }
            prog.truncate(40);
            programs.push(prog);
        }
        // the schedule: which task runs its next operation (uniform, or priority-based with a
        // few change points, PCT style)
        let mut idx = vec![0usize; n_tasks as usize];
        let pct = rng.chance(1, 2);
        let mut prio: Vec<u64> = (0..n_tasks as u64).collect();
        rng.shuffle(&mut prio);
        let total: usize = programs.iter().map(|p| p.len()).sum();
        let mut change_points: Vec<usize> = (0..rng.usize(4)).map(|_| rng.usize(total.max(1))).collect();
        change_points.sort_unstable();
        let mut step = 0;
        loop {
            let live: Vec<usize> = (0..n_tasks as usize)
                .filter(|&t| idx[t] < programs[t].len())
                .collect();
            if live.is_empty() {
                break;
            }
            let t = if pct {
                if change_points.contains(&step) {
                    // demote the currently highest-priority live task
                    let top = *live.iter().max_by_key(|&&t| prio[t]).unwrap();
                    prio[top] = 0;
                    for (i, p) in prio.iter_mut().enumerate() {
                        if i != top {
                            *p += 1;
                        }
                    }
                }
                *live.iter().max_by_key(|&&t| prio[t]).unwrap()
            } else {
                *rng.pick(&live)
            };
            plan.ops.push(programs[t][idx[t]].clone());
            idx[t] += 1;
            step += 1;
        }
        plan
    }

    fn execute(&self, plan: &Plan, ctx: &mut Ctx) -> Check {
        if !tokenizer_is_send_sync() {
            return Err(Violation::new(
                "C04.send_sync",
                "Tokenizer or Dictionary is no longer Send + Sync: it cannot be shared across threads",
            ));
        }
        let tokenizer = plan_tokenizer(plan, ctx)?;
        let mut expected: BTreeMap<String, Vec<Tok>> = BTreeMap::new();
        let mut tasks: BTreeMap<u32, TaskState> = BTreeMap::new();
        let mut last_task = u32::MAX;
        let mut switches = 0u64;
        for op in &plan.ops {
            if op.task != last_task {
                if last_task != u32::MAX {
                    switches += 1;
                }
                last_task = op.task;
            }
            if op.kind == "Recreate" {
                // the old worker is dropped before the new one is created (as in
                // `drop(worker); let worker = tokenizer.new_worker();`)
                tasks.remove(&op.task);
            }
            let st = tasks.entry(op.task).or_insert_with(|| TaskState {
                worker: tokenizer.new_worker(),
                sentence: None,
                tokenized: false,
                counter: false,
            });
            let kind = op.kind.as_str();
            match kind {
                "Recreate" => {
                    ctx.count("probe.worker_recreated");
                    ctx.event(&op.brief(), "ok");
                }
                "Reset" => {
                    let s = op.str(0).to_string();
                    if let Some(prev) = &st.sentence {
                        if s.chars().count() < prev.chars().count() {
                            ctx.count("probe.shorter_after_longer");
                        }
                        if s.is_empty() && !prev.is_empty() {
                            ctx.count("probe.empty_after_nonempty");
                        }
                    }
                    let w = &mut st.worker;
                    catch(|| w.reset_sentence(&s))
                        .map_err(|p| panic_violation("C04.reset", &op.brief(), &p))?;
                    st.sentence = Some(s);
                    st.tokenized = false;
                    ctx.state_changes += 1;
                    ctx.event(&op.brief(), "ok");
                }
                "Tokenize" => {
                    if st.sentence.is_none() {
                        // a worker that was never given a sentence holds the empty sentence
                        st.sentence = Some(String::new());
                        ctx.count("probe.tokenize_before_first_sentence");
                    }
                    if st.tokenized {
                        ctx.count("probe.tokenize_again");
                    }
                    let w = &mut st.worker;
                    catch(|| w.tokenize())
                        .map_err(|p| panic_violation("C04.tokenize", &op.brief(), &p))?;
                    st.tokenized = true;
                    ctx.state_changes += 1;
                    ctx.event(&op.brief(), &format!("{} tokens", st.worker.num_tokens()));
                }
                "Burst" => {
                    if st.sentence.is_none() {
                        continue;
                    }
                    let n = op.num(0).clamp(0, 200_000);
                    let w = &mut st.worker;
                    catch(|| {
                        for _ in 0..n {
                            w.tokenize();
                        }
                    })
                    .map_err(|p| panic_violation("C04.tokenize", &op.brief(), &p))?;
                    if n > 0 {
                        st.tokenized = true;
                    }
                    if n >= 65535 {
                        ctx.count("probe.history_of_65535_tokenizations");
                    }
                    ctx.state_changes += 1;
                    ctx.event(&op.brief(), &format!("{} tokens", st.worker.num_tokens()));
                }
                "InitCounter" => {
                    let w = &mut st.worker;
                    catch(|| w.init_connid_counter())
                        .map_err(|p| panic_violation("C04.init_counter", &op.brief(), &p))?;
                    st.counter = true;
                    ctx.event(&op.brief(), "ok");
                }
                "UpdateCounts" => {
                    let nonempty = st.sentence.as_deref().is_some_and(|s| !s.is_empty());
                    if !(st.counter && st.tokenized && nonempty) {
                        continue;
                    }
                    let w = &mut st.worker;
                    catch(|| w.update_connid_counts())
                        .map_err(|p| panic_violation("C04.update_counts", &op.brief(), &p))?;
                    ctx.count("probe.update_counts");
                    ctx.event(&op.brief(), "ok");
                }
                "ReadAll" | "ReadOne" | "Iter" => {
                    let Some(s) = st.sentence.clone() else { continue };
                    if !st.tokenized {
                        continue; // unspecified between reset and the first tokenize
                    }
                    if !expected.contains_key(&s) {
                        let e = fresh_tokens(&tokenizer, &s)?;
                        expected.insert(s.clone(), e);
                    }
                    let exp = &expected[&s];
                    let w = &st.worker;
                    ctx.observations += 1;
                    if exp.is_empty() {
                        ctx.count("probe.zero_token_result");
                    }
                    let got_n = w.num_tokens();
                    if got_n != exp.len() {
                        return Err(Violation::new(
                            "C04.num_tokens",
                            format!(
                                "{}: worker with history reports {} tokens for {:?}, a fresh worker {}",
                                op.brief(),
                                got_n,
                                s,
                                exp.len()
                            ),
                        ));
                    }
                    match kind {
                        "ReadAll" => {
                            let got = catch(|| read_tokens(w))
                                .map_err(|p| panic_violation("C04.read", &op.brief(), &p))?;
                            if &got != exp {
                                let a: Vec<String> = got.iter().map(|t| t.brief()).collect();
                                let b: Vec<String> = exp.iter().map(|t| t.brief()).collect();
                                return Err(Violation::new(
                                    "C04.tokens",
                                    format!("tokens for {s:?} differ from a fresh worker's: {a:?} vs {b:?}"),
                                ));
                            }
                        }
                        "ReadOne" => {
                            if got_n > 0 {
                                let i = (op.num(0) as usize) % got_n;
                                let got = catch(|| {
                                    let t = w.token(i);
                                    (
                                        t.surface().to_string(),
                                        t.range_char(),
                                        t.range_byte(),
                                        t.feature().to_string(),
                                        t.total_cost(),
                                        t.word_cost(),
                                    )
                                })
                                .map_err(|p| panic_violation("C04.read_one", &op.brief(), &p))?;
                                let e = &exp[i];
                                if got.0 != e.surface
                                    || got.1 != (e.cs..e.ce)
                                    || got.2 != (e.bs..e.be)
                                    || got.3 != e.feature
                                    || got.4 != e.tcost
                                    || got.5 != e.wcost
                                {
                                    return Err(Violation::new(
                                        "C04.token_i",
                                        format!("token({i}) for {s:?} = {got:?}, fresh worker: {}", e.brief()),
                                    ));
                                }
                            }
                        }
                        _ => {
                            let got = catch(|| {
                                w.token_iter()
                                    .map(|t| (t.surface().to_string(), t.total_cost()))
                                    .collect::<Vec<_>>()
                            })
                            .map_err(|p| panic_violation("C04.iter", &op.brief(), &p))?;
                            let e: Vec<(String, i32)> =
                                exp.iter().map(|t| (t.surface.clone(), t.tcost)).collect();
                            if got != e {
                                return Err(Violation::new(
                                    "C04.iter",
                                    format!("token_iter for {s:?} yields {got:?}, fresh worker: {e:?}"),
                                ));
                            }
                        }
                    }
                    ctx.event(&op.brief(), &format!("{got_n} tokens, equal"));
                }
                other => return Err(Violation::new("C04.plan", format!("unknown op {other}"))),
            }
        }
        if tasks.len() >= 3 && switches >= 5 {
            ctx.count("probe.three_tasks_five_switches");
        }
        if tasks.len() >= 2 {
            ctx.count("probe.multi_task_run");
        }
        Ok(())
    }

    fn describe(&self) -> ScenarioInfo {
        ScenarioInfo {
            level: "exploration",
            rule: "one seeded run = a seeded dictionary (any connector, optional user lexicon and mapping) + one option set + 1-4 simulated caller tasks, each owning a Worker of the one shared Tokenizer and a program of reset/tokenize(0-3x)/read/iter/init-counter/update-counts/recreate operations over sentence sequences biased to shorter-after-longer, empty-after-non-empty and repeats; the plan's global operation order is the schedule (uniform or PCT-style priority schedules). After every read that follows a tokenize, the tokens must equal those of a worker created fresh for that sentence. Added later: 1 run in 150 contains a burst of 255/256/65534/65535/65536/131071 tokenizations of a short sentence between two sentences of one worker. Round 5: 1 bigram world in 6 with connection costs beyond 16 bits; a re-created worker (the old one dropped first) may tokenize and be read before it is given a sentence (= the empty sentence). Round 6: sentence sequences contain continuations of the previous sentence (a character-category run crossing the seam). distinct_nontrivial = distinct plan hashes of runs with >= 1 checked read after >= 1 reset/tokenize",
            assumptions: vec![
                "interleaving is explored at operation granularity on one OS thread (safe-Rust callers cannot interfere below that except through interior mutability, which the Send+Sync probe and the thorough-tier Miri run address)",
                "reads between reset_sentence and the first tokenize are unspecified and not checked",
            ],
            real: vec!["Tokenizer, Worker, Lattice, Sentence, Token, all dictionary lookups"],
            stub: vec!["caller threads (simulated tasks scheduled by the plan)", "definition files (in-memory)"],
            probes: vec![
                "probe.shorter_after_longer",
                "probe.empty_after_nonempty",
                "probe.tokenize_again",
                "probe.zero_token_result",
                "probe.worker_recreated",
                "probe.tokenize_before_first_sentence",
                "probe.history_of_65535_tokenizations",
                "probe.update_counts",
                "probe.three_tasks_five_switches",
                "probe.multi_task_run",
            ],
        }
    }
}

// ---------------------------------------------------------------------------------------------
// C13

pub struct ReorderScenario;

#[derive(Default, Clone)]
struct RefCounter {
    lid: Vec<u64>,
    rid: Vec<u64>,
}

/// Counts one connection-cost evaluation per (predecessor, node) pair of the lattice of `s`,
/// recomputed from a pristine worker's lattice dump.
fn reference_counts(tokenizer: &Tokenizer, s: &str, nl: usize, nr: usize) -> Result<RefCounter, Violation> {
    let mut c = RefCounter {
        lid: vec![0; nl],
        rid: vec![0; nr],
    };
    if s.is_empty() {
        return Ok(c);
    }
    let (nodes, eos) = catch(|| {
        let mut w = tokenizer.new_worker();
        w.reset_sentence(s);
        w.tokenize();
        w.verif_lattice()
    })
    .map_err(|p| panic_violation("C13.ref", &format!("pristine worker on {s:?}"), &p))?;
    let Some(eos) = eos else {
        return Err(Violation::new("C13.ref.eos", format!("no EOS node after tokenizing {s:?}")));
    };
    let mut by_end: BTreeMap<usize, Vec<usize>> = BTreeMap::new();
    for (i, n) in nodes.iter().enumerate() {
        by_end.entry(n.end).or_default().push(i);
    }
    let empty = vec![];
    for n in nodes.iter().filter(|n| n.end >= 1).chain(std::iter::once(&eos)) {
        let preds = by_end.get(&n.start_node).unwrap_or(&empty);
        let li = usize::from(n.left_id);
        if li >= nl {
            return Err(Violation::new("C13.ref.range", format!("left id {li} out of range {nl}")));
        }
        c.lid[li] += preds.len() as u64;
        for &p in preds {
            let ri = usize::from(nodes[p].right_id);
            if ri >= nr {
                return Err(Violation::new("C13.ref.range", format!("right id {ri} out of range {nr}")));
            }
            c.rid[ri] += 1;
        }
    }
    Ok(c)
}

fn short_lines(lines: &[String]) -> Vec<String> {
    lines
        .iter()
        .map(|l| {
            if l.chars().count() > 40 {
                format!("{}... ({} characters)", l.chars().take(40).collect::<String>(), l.chars().count())
            } else {
                l.clone()
            }
        })
        .collect()
}

/// The counter world of the enumeration step: 128 homographs of one character carry id 2, 32
/// homographs of another carry id 1, a third word id 3.
fn big_count_plan(seed: u64) -> Plan {
    let mut plan = Plan::new("C13", seed, u64::MAX);
    let mut lex = String::new();
    for i in 0..128 {
        lex.push_str(&format!("あ,2,2,{},A{i}\n", i % 7));
    }
    for i in 0..32 {
        lex.push_str(&format!("い,1,1,{},I{i}\n", i % 5));
    }
    // id 3 is never used, id 4 twice: a frequency of 5e-10 still ranks before a frequency of 0
    lex.push_str("う,4,4,0,U\n");
    plan.set_file("lex.csv", lex);
    plan.set_file("matrix.def", "5 5\n0 0 0\n");
    plan.set_file("char.def", "DEFAULT 0 1 0\n");
    plan.set_file("unk.def", "DEFAULT,0,0,100,*\n");
    plan.set_param("conn", crate::world::CONN_MATRIX);
    plan.set_param("opt", 0);
    // id 2 takes part in 128*128*1024 (+ the edges from BOS and to EOS) evaluations per update of
    // the first line: 257 updates pass 2^32; id 1 gets 32*32*1024 per update, 40 updates = 4.2e7,
    // which is more than whatever is left of id 2's count after a 32-bit wrap-around (< 1.7e7)
    plan.ops.push(Op::new("InitCounter"));
    plan.ops.push(Op::new("Reset").s(&"あ".repeat(1025)));
    plan.ops.push(Op::new("Tokenize"));
    plan.ops.push(Op::new("UpdateBurst").n(&[257]));
    plan.ops.push(Op::new("Reset").s(&"い".repeat(1025)));
    plan.ops.push(Op::new("Tokenize"));
    plan.ops.push(Op::new("UpdateBurst").n(&[40]));
    plan.ops.push(Op::new("Reset").s("うう"));
    plan.ops.push(Op::new("Tokenize"));
    plan.ops.push(Op::new("UpdateCounts"));
    plan.ops.push(Op::new("ComputeProbs"));
    plan
}

fn expected_probs(counts: &[u64]) -> Vec<(usize, f64)> {
    let total: u64 = counts.iter().sum();
    let mut v: Vec<(usize, u64)> = counts.iter().cloned().enumerate().skip(1).collect();
    v.sort_by(|a, b| b.1.cmp(&a.1).then(a.0.cmp(&b.0)));
    v.into_iter()
        .map(|(i, c)| (i, c as f64 / total as f64))
        .collect()
}

/// The statement fixes the *order* of the ids (by reference count descending, id ascending), not
/// the numeric values reported next to them: those only have to be consistent with that order
/// (non-increasing; all NaN when nothing was counted is what count/total gives).
fn same_probs(a: &[(usize, f64)], b: &[(usize, f64)]) -> bool {
    a.len() == b.len()
        && a.iter().zip(b).all(|(x, y)| x.0 == y.0)
        && a.windows(2).all(|w| !(w[0].1 < w[1].1))
}

impl Scenario for ReorderScenario {
    fn id(&self) -> &'static str {
        "C13"
    }
    fn runs(&self, tier: Tier) -> u64 {
        match tier {
            Tier::Quick => 60_000,
            Tier::Thorough => 2_000_000,
        }
    }
    fn plan(&self, rng: &mut Rng, _tier: Tier, seed: u64, run: u64) -> Plan {
        let mut plan = Plan::new("C13", seed, run);
        let (info, _) = gen_worker_world(rng, &mut plan);
        let n_lines = match rng.below(8) {
            0 => 0,
            1 => 1,
            _ => 1 + rng.usize(12),
        };
        let lines = gen_sentence_seq(rng, &info, n_lines);
        plan.ops.push(Op::new("InitCounter"));
        for s in &lines {
            plan.ops.push(Op::new("Reset").s(s));
            plan.ops.push(Op::new("Tokenize"));
            if rng.chance(1, 5) {
                plan.ops.push(Op::new("Tokenize"));
            }
            if rng.chance(1, 4) {
                plan.ops.push(Op::new("ReadAll"));
            }
            plan.ops.push(Op::new("UpdateCounts"));
            if rng.chance(1, 12) {
                plan.ops.push(Op::new("UpdateCounts"));
            }
            if rng.chance(1, 25) {
                plan.ops.push(Op::new("InitCounter"));
            }
        }
        plan.ops.push(Op::new("ComputeProbs"));
        plan
    }

    fn execute(&self, plan: &Plan, ctx: &mut Ctx) -> Check {
        let tokenizer = plan_tokenizer(plan, ctx)?;
        let nl = tokenizer.dictionary().verif_num_left();
        let nr = tokenizer.dictionary().verif_num_right();
        let mut worker = tokenizer.new_worker();
        let mut reference = RefCounter {
            lid: vec![0; nl],
            rid: vec![0; nr],
        };
        let mut inited = false;
        let mut sentence: Option<String> = None;
        let mut tokenized = false;
        let mut lines: Vec<String> = vec![];
        let mut first_update = true;
        let mut memo: BTreeMap<String, RefCounter> = BTreeMap::new();
        let mut computed: Option<(Vec<(usize, f64)>, Vec<(usize, f64)>)> = None;
        for op in &plan.ops {
            match op.kind.as_str() {
                "InitCounter" => {
                    catch(|| worker.init_connid_counter())
                        .map_err(|p| panic_violation("C13.init", &op.brief(), &p))?;
                    reference = RefCounter {
                        lid: vec![0; nl],
                        rid: vec![0; nr],
                    };
                    inited = true;
                    ctx.event(&op.brief(), "ok");
                }
                "Reset" => {
                    let s = op.str(0).to_string();
                    catch(|| worker.reset_sentence(&s))
                        .map_err(|p| panic_violation("C13.reset", &op.brief(), &p))?;
                    sentence = Some(s);
                    tokenized = false;
                    ctx.event(&op.brief(), "ok");
                }
                "Tokenize" => {
                    if sentence.is_none() {
                        continue;
                    }
                    catch(|| worker.tokenize())
                        .map_err(|p| panic_violation("C13.tokenize", &op.brief(), &p))?;
                    tokenized = true;
                    ctx.event(&op.brief(), &format!("{} tokens", worker.num_tokens()));
                }
                "ReadAll" => {
                    if tokenized {
                        let _ = catch(|| read_tokens(&worker))
                            .map_err(|p| panic_violation("C13.read", &op.brief(), &p))?;
                    }
                }
                "UpdateCounts" => {
                    let Some(s) = sentence.clone() else { continue };
                    if !(inited && tokenized) {
                        continue;
                    }
                    if s.is_empty() {
                        if first_update {
                            ctx.count("probe.empty_first_line");
                        } else {
                            ctx.count("probe.empty_later_line");
                        }
                    }
                    if lines.last() == Some(&s) {
                        ctx.count("probe.same_line_twice");
                    }
                    first_update = false;
                    catch(|| worker.update_connid_counts()).map_err(|p| {
                        panic_violation("C13.update", &format!("update_connid_counts after {s:?}"), &p)
                    })?;
                    if !memo.contains_key(&s) {
                        let c = reference_counts(&tokenizer, &s, nl, nr)?;
                        memo.insert(s.clone(), c);
                    }
                    let c = &memo[&s];
                    for (a, b) in reference.lid.iter_mut().zip(&c.lid) {
                        *a += b;
                    }
                    for (a, b) in reference.rid.iter_mut().zip(&c.rid) {
                        *a += b;
                    }
                    lines.push(s);
                    ctx.state_changes += 1;
                    ctx.event(&op.brief(), "ok");
                }
                "UpdateBurst" => {
                    // n further update calls for the current (tokenized) sentence: each adds the
                    // sentence's evaluations once more, exactly like repeating the line n times
                    let Some(s) = sentence.clone() else { continue };
                    if !(inited && tokenized) || s.is_empty() {
                        continue;
                    }
                    let n = op.num(0).clamp(0, 100_000) as u64;
                    catch(|| {
                        for _ in 0..n {
                            worker.update_connid_counts();
                        }
                    })
                    .map_err(|p| panic_violation("C13.update", &format!("update_connid_counts x{n} after a sentence of {} characters", s.chars().count()), &p))?;
                    if !memo.contains_key(&s) {
                        let c = reference_counts(&tokenizer, &s, nl, nr)?;
                        memo.insert(s.clone(), c);
                    }
                    let c = &memo[&s];
                    for (a, b) in reference.lid.iter_mut().zip(&c.lid) {
                        *a += b * n;
                    }
                    for (a, b) in reference.rid.iter_mut().zip(&c.rid) {
                        *a += b * n;
                    }
                    if reference.lid.iter().chain(reference.rid.iter()).any(|&x| x >= 1u64 << 32) {
                        ctx.count("probe.count_of_2_pow_32_or_more");
                    }
                    first_update = false;
                    ctx.state_changes += 1;
                    ctx.event(&op.brief(), "ok");
                }
                "ComputeProbs" => {
                    if !inited {
                        continue;
                    }
                    let (lp, rp) = catch(|| worker.compute_connid_probs())
                        .map_err(|p| panic_violation("C13.compute", &op.brief(), &p))?;
                    ctx.observations += 1;
                    // permutation property
                    for (name, probs, dim) in [("left", &lp, nl), ("right", &rp, nr)] {
                        let mut ids: Vec<usize> = probs.iter().map(|x| x.0).collect();
                        ids.sort_unstable();
                        let want: Vec<usize> = (1..dim).collect();
                        if ids != want {
                            return Err(Violation::new(
                                "C13.permutation",
                                format!("{name} ids listed {:?}, expected every id 1..{dim} exactly once", probs.iter().map(|x| x.0).collect::<Vec<_>>()),
                            ));
                        }
                    }
                    let el = expected_probs(&reference.lid);
                    let er = expected_probs(&reference.rid);
                    if !same_probs(&lp, &el) {
                        return Err(Violation::new(
                            "C13.left_stats",
                            format!("left-id statistics {lp:?} differ from the reference {el:?} (reference counts {:?}) after lines {:?}", reference.lid, short_lines(&lines)),
                        ));
                    }
                    if !same_probs(&rp, &er) {
                        return Err(Violation::new(
                            "C13.right_stats",
                            format!("right-id statistics {rp:?} differ from the reference {er:?} (reference counts {:?}) after lines {:?}", reference.rid, short_lines(&lines)),
                        ));
                    }
                    if lines.is_empty() {
                        ctx.count("probe.no_lines");
                    }
                    if reference.lid.iter().skip(1).any(|&c| c == 0) {
                        ctx.count("probe.zero_count_id");
                    }
                    let mut sorted = reference.lid[1..].to_vec();
                    sorted.sort_unstable();
                    if sorted.windows(2).any(|w| w[0] == w[1] && w[0] > 0) {
                        ctx.count("probe.tied_counts");
                    }
                    ctx.event(&op.brief(), &format!("{lp:?} {rp:?}"));
                    computed = Some((lp, rp));
                }
                other => return Err(Violation::new("C13.plan", format!("unknown op {other}"))),
            }
        }
        drop(worker);
        // the reorder tool's output is accepted by the map tool, and the mapped dictionary
        // tokenizes the same lines identically up to the permutation (C06's oracle)
        if let Some((lp, rp)) = computed {
            let lmap: Vec<u16> = lp.iter().map(|x| x.0 as u16).collect();
            let rmap: Vec<u16> = rp.iter().map(|x| x.0 as u16).collect();
            let opts = option_sets(crate::obs::has_space(tokenizer.dictionary()));
            let opt = opts[(plan.param("opt") as usize).min(opts.len() - 1)];
            let mut before = vec![];
            for s in &lines {
                before.push(fresh_tokens(&tokenizer, s).map_err(|mut v| {
                    v.oracle = v.oracle.replace("C04", "C13");
                    v
                })?);
            }
            let dict = tokenizer.verif_into_dictionary();
            let mapped = must("C13.map", "map_connection_ids_from_iter(reorder output)", map_ids(dict, &lmap, &rmap))?;
            // new id of old id x = position of x in the list (1-origin)
            let mut lnew = vec![0u16; nl];
            let mut rnew = vec![0u16; nr];
            for (i, &o) in lmap.iter().enumerate() {
                lnew[usize::from(o)] = (i + 1) as u16;
            }
            for (i, &o) in rmap.iter().enumerate() {
                rnew[usize::from(o)] = (i + 1) as u16;
            }
            let t2 = make_tokenizer(mapped, opt);
            for (s, b) in lines.iter().zip(&before) {
                let a = fresh_tokens(&t2, s).map_err(|mut v| {
                    v.oracle = v.oracle.replace("C04", "C13.mapped");
                    v
                })?;
                let b2: Vec<Tok> = b
                    .iter()
                    .map(|t| Tok {
                        left: lnew[usize::from(t.left)],
                        right: rnew[usize::from(t.right)],
                        ..t.clone()
                    })
                    .collect();
                if a != b2 {
                    return Err(Violation::new(
                        "C13.mapped_tokens",
                        format!(
                            "after mapping with the reorder output, {s:?} tokenizes to {:?}, expected {:?}",
                            a.iter().map(|t| t.brief()).collect::<Vec<_>>(),
                            b2.iter().map(|t| t.brief()).collect::<Vec<_>>()
                        ),
                    ));
                }
            }
            ctx.count("probe.reorder_output_mapped");
        }
        Ok(())
    }

    fn extra(&self, _tier: Tier, seed: u64, rep: &mut crate::runner::BatchReport) {
        // one long history in which an id takes part in more than 2^32 evaluations (a counter
        // narrower than 64 bits wraps there): about 4.3e9 counted pairs, a few seconds
        let plan = big_count_plan(seed);
        let mut ctx = Ctx::new(false);
        match crate::core::run_plan(self, &plan, &mut ctx) {
            Ok(()) => {
                let hit = ctx.counters.get("probe.count_of_2_pow_32_or_more").copied().unwrap_or(0);
                *rep.counters.entry("probe.count_of_2_pow_32_or_more".into()).or_insert(0) += hit;
                rep.extra_evaluations += 1;
                rep.extra_distinct += 1;
                rep.extra.insert(
                    "long_history".into(),
                    crate::json::J::s("1 history with 257 + 40 + 1 counted lines of up to 1025 characters over 128 / 32 homographs: one id takes part in more than 2^32 connection-cost evaluations; order of the statistics compared with the reference counter"),
                );
            }
            Err(v) => rep.extra_failure = Some((plan, v)),
        }
    }

    fn describe(&self) -> ScenarioInfo {
        ScenarioInfo {
            level: "exploration",
            rule: "one seeded run = a seeded dictionary + option set + the reorder tool's loop over 0-12 seeded lines (empty lines, repeated lines, all-space lines, long-then-short) with extra tokenize/read/update/init calls; the returned statistics must list every id 1..dim exactly once, be ordered by (reference count desc, id asc) with non-increasing reported values, where the reference counter is recomputed from pristine workers' lattice dumps (one count per predecessor/node pair plus EOS); the id columns are then fed to map_connection_ids_from_iter and the mapped dictionary must tokenize the lines identically up to the permutation. Added later: an enumeration step with one long history (257 + 40 + 1 counted lines over 128/32 homographs) in which one id takes part in more than 2^32 evaluations, an unused id and an id used twice. distinct_nontrivial = distinct plan hashes of runs that computed statistics after >= 1 counted line",
            assumptions: vec![
                "the reorder and map command-line tools are mirrored (their loops are a few lines of glue), not executed",
                "update_connid_counts without a preceding tokenize of the current sentence is unspecified and not generated",
            ],
            real: vec!["Worker::{init_connid_counter,update_connid_counts,compute_connid_probs}, Lattice::add_connid_counts, ConnIdCounter, Dictionary::map_connection_ids_from_iter"],
            stub: vec!["stdin lines and mapping files (in-memory)"],
            probes: vec![
                "probe.no_lines",
                "probe.empty_first_line",
                "probe.empty_later_line",
                "probe.same_line_twice",
                "probe.tied_counts",
                "probe.zero_count_id",
                "probe.reorder_output_mapped",
                "probe.count_of_2_pow_32_or_more",
            ],
        }
    }
}
