//! C09 — truncated or foreign dictionary images are rejected.
//! Seeded part: torn writes (crash of the sink at offset k, then "restart" and read the durable
//! bytes), failing readers, foreign/partial magic, and the positive control (the full image
//! through arbitrary chunking + EINTR loads and behaves like the original).
//! Enumerated part (`extra`): every strict prefix of several images, every single-byte
//! substitution in the magic.

use std::sync::atomic::{AtomicU64, Ordering};

use vibrato::Dictionary;

use crate::core::{catch, panic_violation, Check, Ctx, Scenario, ScenarioInfo, Tier, Violation};
use crate::dictops::{load_user, map_ids, must, read_image, write_image};
use crate::io::{gen_benign, gen_hard};
use crate::obs::{build_plain, diff_obs, observe};
use crate::plan::{Fault, Op, Plan};
use crate::rng::Rng;
use crate::runner::BatchReport;
use crate::world::{gen_perm, gen_probes, gen_user_csv, gen_world, join_ids, parse_ids, WorldCfg};

pub struct ImageScenario;

/// The current model magic, read from the code under test (hook H7) so that a new format version
/// does not turn the foreign-header cases into false alarms.
pub fn magic() -> &'static [u8] {
    Dictionary::verif_model_magic()
}

/// Builds the reference dictionary of a plan: world -> optional user lexicon / mapping.
pub fn reference_dict(plan: &Plan, ctx: &mut Ctx) -> Result<Dictionary, Violation> {
    let mut d = build_plain(
        "ref",
        &plan.files,
        plan.param("conn"),
        plan.param("order_seed") as u64,
        ctx,
    )?;
    let none = Fault::default();
    let user_first = plan.param("user_first") != 0;
    let do_user = |d: Dictionary, ctx: &mut Ctx| -> Result<Dictionary, Violation> {
        if plan.has_file("user.csv") {
            must("ref.user", "load user lexicon", load_user(d, plan.file("user.csv"), &none, ctx))
        } else {
            Ok(d)
        }
    };
    let do_map = |d: Dictionary| -> Result<Dictionary, Violation> {
        if plan.has_file("lmap") {
            let l = parse_ids(&plan.file_str("lmap"));
            let r = parse_ids(&plan.file_str("rmap"));
            must("ref.map", "map connection ids", map_ids(d, &l, &r))
        } else {
            Ok(d)
        }
    };
    if user_first {
        d = do_user(d, ctx)?;
        d = do_map(d)?;
    } else {
        d = do_map(d)?;
        d = do_user(d, ctx)?;
    }
    Ok(d)
}

pub fn gen_image_world(rng: &mut Rng, plan: &mut Plan, force: Option<(i64, bool, bool)>) -> Vec<String> {
    let mut cfg = WorldCfg::default();
    if let Some((conn, _, _)) = force {
        cfg.conns = vec![conn];
    }
    let info = gen_world(rng, plan, &cfg);
    let (user, mapped) = match force {
        Some((_, u, m)) => (u, m),
        None => (rng.chance(1, 2), rng.chance(1, 2)),
    };
    if user {
        plan.set_file("user.csv", gen_user_csv(&mut rng.fork(), &info, "U"));
    }
    if mapped {
        plan.set_file("lmap", join_ids(&gen_perm(&mut rng.fork(), info.num_left)));
        plan.set_file("rmap", join_ids(&gen_perm(&mut rng.fork(), info.num_right)));
    }
    plan.set_param("user_first", rng.below(2) as i64);
    // a dictionary without any unknown-word entry (the unknown-word table is the last section of
    // the image); such a dictionary is only read and observed through its connection costs here
    if force.is_none() && rng.chance(1, 12) {
        plan.set_file("unk.def", "");
        plan.set_param("no_unk", 1);
        return vec![String::new()];
    }
    gen_probes(&mut rng.fork(), &info.surfaces, 4)
}

/// Appends a field of `pad` bytes to the feature of the unknown-word entry that is stored last in
/// the image (the last row of the category with the highest id that has rows).
fn lengthen_last_unk_feature(plan: &mut Plan, pad: usize) {
    let Some(cats) = crate::scen_build::category_order(&plan.file_str("char.def")) else { return };
    let unk = plan.file_str("unk.def");
    let mut lines: Vec<String> = unk.lines().map(|l| l.to_string()).collect();
    for c in cats.iter().rev() {
        if let Some(i) = lines.iter().rposition(|l| l.starts_with(&format!("{c},"))) {
            lines[i].push(',');
            lines[i].push_str(&"z".repeat(pad));
            plan.set_file("unk.def", lines.join("\n") + "\n");
            return;
        }
    }
}

fn expect_rejected(
    oracle: &str,
    what: &str,
    r: crate::dictops::Guarded<Dictionary>,
    ctx: &mut Ctx,
) -> Check {
    match r {
        Ok(Err(e)) => {
            ctx.event(what, &format!("Err({})", e.chars().take(60).collect::<String>()));
            Ok(())
        }
        Ok(Ok(_)) => Err(Violation::new(
            oracle,
            format!("{what}: Dictionary::read returned Ok for a damaged/foreign image"),
        )),
        Err(p) => Err(panic_violation(oracle, what, &p)),
    }
}

impl Scenario for ImageScenario {
    fn id(&self) -> &'static str {
        "C09"
    }
    fn runs(&self, tier: Tier) -> u64 {
        match tier {
            Tier::Quick => 1500,
            Tier::Thorough => 40_000,
        }
    }
    fn plan(&self, rng: &mut Rng, _tier: Tier, seed: u64, run: u64) -> Plan {
        let mut plan = Plan::new("C09", seed, run);
        let probes = gen_image_world(rng, &mut plan, None);
        plan.set_file("probes", probes.join("\n"));
        // the image length is not known at planning time: offsets are planned as fractions of
        // 2^32 and resolved against the real length at execution (deterministically)
        let n_ops = 2 + rng.usize(6);
        for _ in 0..n_ops {
            let frac = |rng: &mut Rng| -> i64 {
                match rng.below(8) {
                    0 => 0,
                    1 => (1 << 32) - 1,
                    2 => rng.range(0, 1 << 14),               // near the start (magic, first length prefixes)
                    3 => (1 << 32) - 1 - rng.range(0, 1 << 14), // near the end
                    _ => rng.range(0, (1 << 32) - 1),
                }
            };
            let op = match rng.below(10) {
                0 | 1 => Op::new("ReadPrefix")
                    .n(&[frac(rng)])
                    .fault("src", gen_benign(rng, 4096)),
                2 | 3 | 4 => {
                    let mut f = gen_hard(rng, 1 << 20, &[0, 1, 2]);
                    f.hard_at = None; // resolved from n[0]
                    let kind = *rng.pick(&[0i64, 1, 2]);
                    Op::new("TornWrite").n(&[frac(rng), kind]).fault("sink", f)
                }
                5 | 6 => {
                    let mut f = gen_hard(rng, 1 << 20, &[0, 1, 3]);
                    f.hard_at = None;
                    let kind = *rng.pick(&[0i64, 1, 3]);
                    Op::new("ReaderError").n(&[frac(rng), kind]).fault("src", f)
                }
                // foreign headers, delivered in one piece or in small chunks / with EINTR
                7 => Op::new("ForeignMagic")
                    .n(&[rng.range(0, 20), rng.range(1, 255)])
                    .fault("src", gen_benign(rng, 64)),
                8 => Op::new("MagicPrefix")
                    .n(&[rng.range(0, 21), rng.range(0, 9)])
                    .fault("src", gen_benign(rng, 64)),
                _ => Op::new("ReadFull")
                    .fault("src", gen_benign(rng, 4096))
                    .fault("sink", gen_benign(rng, 4096)),
            };
            plan.ops.push(op);
        }
        plan
    }

    fn execute(&self, plan: &Plan, ctx: &mut Ctx) -> Check {
        let dict = reference_dict(plan, ctx)?;
        let none = Fault::default();
        let (r, image) = write_image(&dict, &none, ctx);
        let n = must("C09.write", "Dictionary::write", r)?;
        if n != image.len() {
            return Err(Violation::new(
                "C09.write.count",
                format!("write returned {n} but emitted {} bytes", image.len()),
            ));
        }
        ctx.state_changes += 1;
        ctx.event("write", &format!("{} bytes", image.len()));
        let probes: Vec<String> = plan.file_str("probes").split('\n').map(|s| s.to_string()).collect();
        let len = image.len();
        let resolve = |frac: i64| -> usize { ((frac as u128 * len as u128) >> 32) as usize };
        let mut dict = Some(dict);
        let mut reference_obs = None;
        for op in &plan.ops {
            match op.kind.as_str() {
                "ReadPrefix" => {
                    let k = resolve(op.num(0)).min(len - 1);
                    let r = read_image(&image[..k], &op.get_fault("src"), ctx);
                    ctx.observations += 1;
                    ctx.count("op.read_prefix");
                    expect_rejected("C09.prefix", &format!("read prefix {k}/{len}"), r, ctx)?;
                }
                "TornWrite" => {
                    let k = resolve(op.num(0)).min(len - 1);
                    let mut f = op.get_fault("sink");
                    f.hard_at = Some(k as u64);
                    f.hard_kind = op.num(1) as u8;
                    let d = dict.as_ref().unwrap();
                    let (r, durable) = write_image(d, &f, ctx);
                    ctx.count("op.torn_write");
                    match r {
                        Ok(Err(_)) => {}
                        Ok(Ok(n)) => {
                            return Err(Violation::new(
                                "C09.torn.write_ok",
                                format!(
                                    "write into a sink that failed at byte {k} returned Ok({n}); {} bytes durable",
                                    durable.len()
                                ),
                            ))
                        }
                        Err(p) => {
                            return Err(panic_violation("C09.torn.write", "write into failing sink", &p))
                        }
                    }
                    if durable != image[..durable.len().min(len)] || durable.len() > k {
                        return Err(Violation::new(
                            "C09.torn.prefix",
                            format!(
                                "durable bytes after a crash at {k} are not a prefix of the image ({} bytes)",
                                durable.len()
                            ),
                        ));
                    }
                    // restart: read what is on the medium
                    let r = read_image(&durable, &none, ctx);
                    ctx.observations += 1;
                    expect_rejected(
                        "C09.torn.read",
                        &format!("read after crash at {k}/{len}"),
                        r,
                        ctx,
                    )?;
                }
                "ReaderError" => {
                    let k = resolve(op.num(0)).min(len - 1);
                    let mut f = op.get_fault("src");
                    f.hard_at = Some(k as u64);
                    f.hard_kind = op.num(1) as u8;
                    let r = read_image(&image, &f, ctx);
                    ctx.observations += 1;
                    ctx.count("op.reader_error");
                    expect_rejected("C09.reader_error", &format!("reader error at {k}/{len}"), r, ctx)?;
                }
                "ForeignMagic" => {
                    let i = (op.num(0) as usize).min(magic().len() - 1);
                    let mut img = image.clone();
                    let b = img[i].wrapping_add(op.num(1).clamp(1, 255) as u8);
                    img[i] = b;
                    let r = read_image(&img, &op.get_fault("src"), ctx);
                    ctx.observations += 1;
                    ctx.count("op.foreign_magic");
                    expect_rejected("C09.magic", &format!("magic byte {i} -> {b:#x}"), r, ctx)?;
                }
                "MagicPrefix" => {
                    let n = (op.num(0) as usize).min(magic().len());
                    let img: Vec<u8> = match op.num(1) {
                        0 => magic()[..n].to_vec(),
                        1 => {
                            // an image of another format version: the last digit of the magic
                            // decremented ("0.5" -> "0.4")
                            let mut v = magic().to_vec();
                            if let Some(i) = v.iter().rposition(|b| b.is_ascii_digit()) {
                                v[i] = if v[i] == b'0' { b'9' } else { v[i] - 1 };
                            } else {
                                v[0] ^= 0x20;
                            }
                            v.extend_from_slice(&image[magic().len()..]);
                            v
                        }
                        2 => {
                            // payload without the magic
                            image[magic().len()..].to_vec()
                        }
                        3 => {
                            // one byte inserted into the header (e.g. LF -> CR LF), body intact
                            let at = n.min(magic().len());
                            let mut v = magic()[..at].to_vec();
                            v.push([b'\r', b' ', 0, b'\n'][n % 4]);
                            v.extend_from_slice(&image[at..]);
                            if v[..magic().len()] == *magic() {
                                v[0] ^= 0x20; // the insertion reproduced the magic: not foreign
                            }
                            v
                        }
                        4 => {
                            // one byte of the header lost, body intact
                            let at = n.min(magic().len() - 1);
                            let mut v = image.clone();
                            v.remove(at);
                            if v.len() >= magic().len() && v[..magic().len()] == *magic() {
                                v[0] ^= 0x20;
                            }
                            v
                        }
                        8 => {
                            // a header of the right length that is valid UTF-8 and ends in a
                            // multi-byte character (another product version, "0.é"), body intact
                            let tail = ["é", "あ", "😀", "0é", "éé"][n % 5];
                            let keep = magic().len().saturating_sub(tail.len());
                            let mut v = magic()[..keep].to_vec();
                            v.extend_from_slice(tail.as_bytes());
                            v.extend_from_slice(&image[magic().len()..]);
                            v
                        }
                        9 => {
                            // a short foreign stream (shorter than the header, not a prefix of it)
                            let shorts: [&[u8]; 6] = [&[0], b"hello", &[0x28, 0xb5, 0x2f, 0xfd], b"VibratoTokenizer 0.4", &[0xff; 20], b"V\n"];
                            let mut v = shorts[n % shorts.len()].to_vec();
                            if magic().starts_with(&v) {
                                v[0] ^= 0x20;
                            }
                            v
                        }
                        5 => vec![0u8; image.len()], // a zero-filled file
                        6 => {
                            // some other file: seeded bytes that do not start like the magic
                            let mut x = 0x9E37_79B9_7F4A_7C15u64.wrapping_mul(n as u64 + 1) ^ plan.seed ^ plan.run;
                            let mut v: Vec<u8> = (0..image.len().min(4096))
                                .map(|_| {
                                    x ^= x << 13;
                                    x ^= x >> 7;
                                    x ^= x << 17;
                                    (x >> 24) as u8
                                })
                                .collect();
                            if v.first() == magic().first() {
                                v[0] ^= 0x55;
                            }
                            v
                        }
                        _ => {
                            // an image of another format version whose body has another layout
                            let mut v = magic().to_vec();
                            if let Some(i) = v.iter().rposition(|b| b.is_ascii_digit()) {
                                v[i] = if v[i] == b'0' { b'9' } else { v[i] - 1 };
                            } else {
                                v[0] ^= 0x20;
                            }
                            let mut body = image[magic().len()..].to_vec();
                            let k = (n * 7 + 3) % body.len().max(1);
                            body.rotate_left(k);
                            v.extend_from_slice(&body);
                            v
                        }
                    };
                    let r = read_image(&img, &op.get_fault("src"), ctx);
                    ctx.observations += 1;
                    ctx.count("op.magic_prefix");
                    expect_rejected("C09.magic", &format!("foreign header kind {} n={n}", op.num(1)), r, ctx)?;
                }
                "ReadFull" => {
                    // positive control: the complete image, however it is chunked, loads and
                    // behaves like the original
                    ctx.count("op.read_full");
                    let d = dict.take().unwrap();
                    let (r, bytes) = write_image(&d, &op.get_fault("sink"), ctx);
                    let n = must("C09.control.write", "write (benign faults)", r)?;
                    if bytes != image || n != image.len() {
                        return Err(Violation::new(
                            "C09.control.bytes",
                            "image written through short writes/EINTR differs from the plain one",
                        ));
                    }
                    let d2 = must(
                        "C09.control.read",
                        "read (benign faults)",
                        read_image(&image, &op.get_fault("src"), ctx),
                    )?;
                    if reference_obs.is_none() {
                        let (d, o) = observe(d, &probes, true);
                        dict = Some(d);
                        reference_obs = Some(
                            o.map_err(|p| panic_violation("C09.control.observe", "observe original", &p))?,
                        );
                    } else {
                        dict = Some(d);
                    }
                    let (_, o2) = observe(d2, &probes, true);
                    let o2 = o2.map_err(|p| panic_violation("C09.control.observe2", "observe reloaded", &p))?;
                    ctx.observations += 1;
                    if let Some(diff) = diff_obs(reference_obs.as_ref().unwrap(), &o2, &probes) {
                        return Err(Violation::new("C09.control.diverged", diff));
                    }
                    ctx.event("read full", "equal");
                }
                other => {
                    return Err(Violation::new("C09.plan", format!("unknown op {other}")));
                }
            }
        }
        Ok(())
    }

    fn nontrivial(&self, _plan: &Plan, ctx: &Ctx) -> bool {
        ctx.observations >= 1
    }

    fn describe(&self) -> ScenarioInfo {
        ScenarioInfo {
            level: "fault_enumeration",
            rule: "enumerated: every strict prefix length k in [0,len) of each image (connector kind x user lexicon x mapper) is read and must be rejected, plus all 21x255 single-byte substitutions of the magic, every proper prefix of the magic, the 0.4 magic and the magic-less payload; seeded: plans of 2-7 fault operations (torn write at offset k then restart+read, reader hard error at k, prefix read through short/EINTR reads, foreign headers, full-image positive control) over a seeded world. Added later: a tail enumeration (every prefix of the last ~6000 bytes of 96 further images whose last feature is 0-3900 bytes long); magic substitutions also read through a 3-byte-chunked reader; foreign streams in the seeded runs: a byte inserted into / lost from the header with the body intact, zero-filled files, seeded garbage, an old-version header over a rotated body; 1 world in 12 has an empty unk.def. Round 5: headers that are valid UTF-8 and end in a multi-byte character, short foreign streams (1-20 bytes that are not a prefix of the magic). distinct_nontrivial = distinct enumerated (image,offset) cases + distinct plan hashes of seeded runs with >= 1 checked read",
            assumptions: vec![
                "bit flips inside an otherwise complete image are out of scope (the format has no checksum)",
                "allocation failure is not injected (aborts the process)",
                "worlds are bounded as in DESIGN.md section 5",
            ],
            real: vec![
                "vibrato::Dictionary::{read,write} and the whole decode path (bincode, crawdad, custom Decode impls)",
                "SystemDictionaryBuilder, user-lexicon loading, id mapping (to produce the images)",
            ],
            stub: vec!["disk and file handles (FaultySink/FaultyReader over memory)"],
            probes: vec![
                "op.read_prefix",
                "op.torn_write",
                "op.reader_error",
                "op.foreign_magic",
                "op.magic_prefix",
                "op.read_full",
                "fault.short_transfer",
                "fault.interrupted",
                "fault.hard",
            ],
        }
    }

    fn extra(&self, tier: Tier, seed: u64, rep: &mut BatchReport) {
        let combos: Vec<(i64, bool, bool)> = match tier {
            Tier::Quick => vec![(0, true, false), (1, false, true), (2, true, true)],
            Tier::Thorough => {
                let mut v = vec![];
                for conn in 0..3 {
                    for u in [false, true] {
                        for m in [false, true] {
                            v.push((conn, u, m));
                        }
                    }
                }
                v
            }
        };
        let worlds = match tier {
            Tier::Quick => 1,
            Tier::Thorough => 2,
        };
        let threads = std::thread::available_parallelism().map(|n| n.get()).unwrap_or(4);
        let mut images = vec![];
        for w in 0..worlds {
            for (ci, &(conn, u, m)) in combos.iter().enumerate() {
                let mut rng = Rng::new(crate::rng::run_seed(seed, "C09-enum", (w * 100 + ci) as u64));
                let mut plan = Plan::new("C09", seed, u64::MAX - (w * 100 + ci) as u64);
                let _ = gen_image_world(&mut rng, &mut plan, Some((conn, u, m)));
                plan.set_file("probes", "");
                crate::hashseam::begin_plan(&plan);
                let mut ctx = Ctx::new(false);
                let dict = match reference_dict(&plan, &mut ctx) {
                    Ok(d) => d,
                    Err(v) => {
                        rep.extra_failure = Some((plan, v));
                        return;
                    }
                };
                let none = Fault::default();
                let (r, image) = write_image(&dict, &none, &mut ctx);
                if let Err(v) = must("C09.write", "write", r) {
                    rep.extra_failure = Some((plan, v));
                    return;
                }
                images.push((plan, image, (conn, u, m)));
            }
        }
        let mut image_info = vec![];
        for (plan, image, combo) in &images {
            let len = image.len();
            let next = AtomicU64::new(0);
            let bad = AtomicU64::new(u64::MAX);
            let panicked = AtomicU64::new(u64::MAX);
            std::thread::scope(|sc| {
                for _ in 0..threads {
                    sc.spawn(|| loop {
                        let start = next.fetch_add(2048, Ordering::Relaxed) as usize;
                        if start >= len {
                            break;
                        }
                        for k in start..(start + 2048).min(len) {
                            match catch(|| Dictionary::read(&image[..k]).is_ok()) {
                                Ok(false) => {}
                                Ok(true) => {
                                    bad.fetch_min(k as u64, Ordering::Relaxed);
                                }
                                Err(_) => {
                                    panicked.fetch_min(k as u64, Ordering::Relaxed);
                                }
                            }
                        }
                    });
                }
            });
            rep.extra_evaluations += len as u64;
            rep.extra_distinct += len as u64;
            let b = bad.load(Ordering::Relaxed).min(panicked.load(Ordering::Relaxed));
            if b != u64::MAX {
                let mut p = plan.clone();
                let frac = (((b as u128) << 32) / len as u128) as i64;
                // resolve() rounds down: make sure the replay hits exactly offset b
                let mut f = frac;
                while (((f as u128) * len as u128) >> 32) as u64 != b {
                    f += 1;
                }
                p.ops = vec![Op::new("ReadPrefix").n(&[f])];
                let what = if panicked.load(Ordering::Relaxed) == b {
                    "panics"
                } else {
                    "is accepted (Ok)"
                };
                rep.extra_failure = Some((
                    p,
                    Violation::new(
                        "C09.prefix",
                        format!("strict prefix of length {b} of a {len}-byte image {what}"),
                    ),
                ));
                return;
            }
            // all single-byte substitutions of the magic
            for i in 0..magic().len() {
                for delta in 1..=255u8 {
                    let mut img = image.clone();
                    img[i] = img[i].wrapping_add(delta);
                    let ok = catch(|| Dictionary::read(img.as_slice()).is_ok());
                    // the same foreign header delivered in 3-byte pieces (only the header part of
                    // the image is needed to be rejected)
                    let chunked = Fault {
                        chunks: vec![3],
                        ..Default::default()
                    };
                    let head = &img[..(magic().len() + 64).min(img.len())];
                    let mut scratch = Ctx::new(false);
                    let ok2 = read_image(head, &chunked, &mut scratch).map(|r| r.is_ok());
                    rep.extra_evaluations += 2;
                    rep.extra_distinct += 2;
                    if !matches!(ok, Ok(false)) || !matches!(ok2, Ok(false)) {
                        let mut p = plan.clone();
                        p.ops = vec![Op::new("ForeignMagic").n(&[i as i64, i64::from(delta)])];
                        rep.extra_failure = Some((
                            p,
                            Violation::new("C09.magic", format!("magic byte {i} + {delta} not rejected")),
                        ));
                        return;
                    }
                }
            }
            image_info.push(crate::json::J::s(&format!(
                "conn={} user={} mapped={} bytes={} prefixes_rejected={}",
                combo.0, combo.1, combo.2, len, len
            )));
        }
        // tail enumeration: many more images of different lengths, whose last unknown-word feature
        // (the last thing in every image) is long; every strict prefix that ends inside the last
        // ~6000 + feature-length bytes is read. Buffer- or block-boundary effects in readers and
        // decoders depend on where the image ends relative to such boundaries.
        let n_tail = match tier {
            Tier::Quick => 96,
            Tier::Thorough => 1500,
        };
        let next = AtomicU64::new(0);
        let first_bad: std::sync::Mutex<Option<(u64, Plan, usize, usize, bool)>> = std::sync::Mutex::new(None);
        let tail_points = AtomicU64::new(0);
        std::thread::scope(|sc| {
            for _ in 0..threads {
                sc.spawn(|| loop {
                    let i = next.fetch_add(1, Ordering::Relaxed);
                    if i >= n_tail {
                        break;
                    }
                    let mut rng = Rng::new(crate::rng::run_seed(seed, "C09-tail", i));
                    let mut plan = Plan::new("C09", seed, u64::MAX - 10_000 - i);
                    let _ = gen_image_world(&mut rng, &mut plan, None);
                    plan.set_file("probes", "");
                    let pad = match rng.below(4) {
                        0 => rng.usize(64),
                        _ => rng.usize(3900),
                    };
                    lengthen_last_unk_feature(&mut plan, pad);
                    let mut ctx = Ctx::new(false);
                    let Ok(dict) = reference_dict(&plan, &mut ctx) else { continue };
                    let none = Fault::default();
                    let (r, image) = write_image(&dict, &none, &mut ctx);
                    if must("C09.write", "write", r).is_err() {
                        continue;
                    }
                    let len = image.len();
                    let start = len.saturating_sub(pad + 6000);
                    for k in start..len {
                        let r = catch(|| Dictionary::read(&image[..k]).is_ok());
                        tail_points.fetch_add(1, Ordering::Relaxed);
                        if !matches!(r, Ok(false)) {
                            let mut g = first_bad.lock().unwrap();
                            if g.as_ref().is_none_or(|b| i < b.0) {
                                *g = Some((i, plan.clone(), k, len, r.is_err()));
                            }
                            break;
                        }
                    }
                });
            }
        });
        let pts = tail_points.load(Ordering::Relaxed);
        rep.extra_evaluations += pts;
        rep.extra_distinct += pts;
        if let Some((_, mut p, k, len, panicked)) = first_bad.into_inner().unwrap() {
            let mut f = (((k as u128) << 32) / len as u128) as i64;
            while (((f as u128) * len as u128) >> 32) as usize != k {
                f += 1;
            }
            p.ops = vec![Op::new("ReadPrefix").n(&[f])];
            rep.extra_failure = Some((
                p,
                Violation::new(
                    "C09.prefix",
                    format!(
                        "strict prefix of length {k} of a {len}-byte image {}",
                        if panicked { "panics" } else { "is accepted (Ok)" }
                    ),
                ),
            ));
            return;
        }
        rep.extra.insert(
            "tail_enumeration".into(),
            crate::json::J::s(&format!(
                "{n_tail} further seeded images with a last unknown-word feature of 0-3900 bytes: every strict prefix ending in the last 6000 + feature-length bytes read and rejected ({pts} reads)"
            )),
        );
        rep.exhaustive = Some(true);
        rep.extra.insert("enumerated_images".into(), crate::json::J::Arr(image_info));
        rep.extra.insert(
            "exhaustive_scope".into(),
            crate::json::J::s("per listed image: all strict prefixes and all single-byte magic substitutions (the seeded part of this check is sampled, not exhaustive)"),
        );
    }
}
