//! Seam for the randomly keyed hash maps of the code under test.
//!
//! vibrato's `hashbrown::HashMap`/`HashSet` (0.12) take their keys from `ahash::RandomState::new()`:
//! in production 64 bytes of `getrandom` per process plus a per-map counter that starts at an ASLR
//! address. The iteration order of every such map is therefore a hidden nondeterministic choice. On
//! the pinned tree no observable result depends on it (proved by the determinism runs), but a change
//! to the code can make one depend on it - and then a violation would not replay.
//!
//! The simulator owns that choice: `install()` registers a `RandomSource` (ahash's own extension
//! point, `RandomState::set_random_source`) whose per-map seed is a function of a thread-local key and
//! a thread-local counter. `begin_run(key)` sets the key from the plan (seed, run) and resets the
//! counter at the start of every plan execution, so the hash order of every map is a pure function of
//! the plan and of the order in which that execution creates its maps - identical in a fresh-process
//! replay, different from run to run. Threads the simulator does not start (there are none in the
//! code under test with num_threads(1)) would see key 0 / counter 0, which is deterministic as well.
//!
//! ahash 0.7.8 does not export the `RandomSource` trait that its public `set_random_source` needs;
//! /verif/sim/vendor/ahash is the registry copy with that one re-export added ([patch.crates-io]).
//! rucrf's maps (hashbrown 0.15/foldhash) are not under this seam; rucrf is a dependency, not code
//! under test, and its outputs do not depend on them.

use std::cell::Cell;

thread_local! {
    static KEY: Cell<u64> = const { Cell::new(0) };
    static CTR: Cell<u64> = const { Cell::new(0) };
}

static FIXED: [[u64; 4]; 2] = [
    [0x243f_6a88_85a3_08d3, 0x1319_8a2e_0370_7344, 0xa409_3822_299f_31d0, 0x082e_fa98_ec4e_6c89],
    [0x4528_21e6_38d0_1377, 0xbe54_66cf_34e9_0c6c, 0xc0ac_29b7_c97c_50dd, 0x3f84_d5b5_b547_0917],
];

struct SimSource;

impl ahash::RandomSource for SimSource {
    fn get_fixed_seeds(&self) -> &'static [[u64; 4]; 2] {
        &FIXED
    }
    fn gen_hasher_seed(&self) -> usize {
        let k = KEY.with(|k| k.get());
        let c = CTR.with(|c| {
            let v = c.get();
            c.set(v.wrapping_add(1));
            v
        });
        // splitmix64 of (key, counter)
        let mut z = k ^ c.wrapping_mul(0x9E37_79B9_7F4A_7C15).wrapping_add(0x9E37_79B9_7F4A_7C15);
        z = (z ^ (z >> 30)).wrapping_mul(0xBF58_476D_1CE4_E5B9);
        z = (z ^ (z >> 27)).wrapping_mul(0x94D0_49BB_1331_11EB);
        (z ^ (z >> 31)) as usize
    }
}

/// Must run before the first hash map of the code under test is created.
pub fn install() {
    if ahash::RandomState::set_random_source(SimSource).is_err() {
        // the default (getrandom) source is already in use: replays would not be exact
        eprintln!("HARNESS-ERROR: the hash-order seam could not be installed");
        std::process::exit(2);
    }
}

/// Start of one plan execution (or of a helper thread working for it) on the current thread.
pub fn begin_run(key: u64) {
    KEY.with(|k| k.set(key));
    CTR.with(|c| c.set(0));
}

/// Start of work on `plan` outside `run_plan` (enumeration steps, the two-build exchange).
pub fn begin_plan(plan: &crate::plan::Plan) {
    begin_run(plan_key(plan.seed, plan.run));
}

/// Key of a plan: a function of its seed and run number only (kept by the minimiser).
pub fn plan_key(seed: u64, run: u64) -> u64 {
    let mut z = seed.rotate_left(32) ^ run ^ 0x6861_7368_6f72_6465; // "hashorde"
    z = (z ^ (z >> 30)).wrapping_mul(0xBF58_476D_1CE4_E5B9);
    z = (z ^ (z >> 27)).wrapping_mul(0x94D0_49BB_1331_11EB);
    z ^ (z >> 31)
}
