//! Fault-injecting streams: the simulated disk and every file handle vibrato sees.
//! All behaviour is a pure function of the `Fault` plan; nothing here draws randomness.

use std::io::{self, Read, Write};

use crate::plan::Fault;
use crate::rng::Rng;

/// Counters of faults that actually fired (not merely configured).
#[derive(Clone, Debug, Default)]
pub struct Fired {
    pub short: u64,
    pub interrupted: u64,
    pub hard: u64,
    /// premature end of file delivered by a reader (truncation, not an error)
    pub eof: u64,
    pub calls: u64,
    /// the sink was handed over by value inside a buffering adapter
    pub owned_adapter: u64,
}

fn hard_error(kind: u8) -> io::Error {
    match kind {
        1 => io::Error::new(io::ErrorKind::WouldBlock, "simulated: would block"),
        3 => io::Error::new(io::ErrorKind::UnexpectedEof, "simulated: unexpected eof"),
        _ => io::Error::other("simulated: I/O error"),
    }
}

pub struct FaultyReader<'a> {
    data: &'a [u8],
    pos: usize,
    plan: &'a Fault,
    pub fired: Fired,
}

impl<'a> FaultyReader<'a> {
    pub fn new(data: &'a [u8], plan: &'a Fault) -> Self {
        Self {
            data,
            pos: 0,
            plan,
            fired: Fired::default(),
        }
    }
    pub fn consumed(&self) -> usize {
        self.pos
    }
}

impl Read for FaultyReader<'_> {
    fn read(&mut self, buf: &mut [u8]) -> io::Result<usize> {
        let call = self.fired.calls;
        self.fired.calls += 1;
        if buf.is_empty() {
            return Ok(0);
        }
        if let Some(h) = self.plan.hard_at {
            if self.pos as u64 >= h {
                return if self.plan.hard_kind == 2 {
                    self.fired.eof += 1;
                    Ok(0)
                } else {
                    self.fired.hard += 1;
                    Err(hard_error(self.plan.hard_kind))
                };
            }
        }
        if self.plan.intr.iter().any(|&c| u64::from(c) == call) {
            self.fired.interrupted += 1;
            return Err(io::Error::new(io::ErrorKind::Interrupted, "simulated: EINTR"));
        }
        let mut n = buf.len().min(self.data.len() - self.pos);
        if !self.plan.chunks.is_empty() {
            let c = self.plan.chunks[(call as usize) % self.plan.chunks.len()].max(1) as usize;
            if c < n {
                n = c;
                self.fired.short += 1;
            }
        }
        if let Some(h) = self.plan.hard_at {
            let room = (h as usize).saturating_sub(self.pos);
            if room < n {
                n = room;
            }
        }
        buf[..n].copy_from_slice(&self.data[self.pos..self.pos + n]);
        self.pos += n;
        Ok(n)
    }
}

/// A sink standing for a file on the simulated disk: `data` is what reached the medium.
pub struct FaultySink<'a> {
    pub data: Vec<u8>,
    plan: &'a Fault,
    pub fired: Fired,
    pub flushes: u64,
}

impl<'a> FaultySink<'a> {
    pub fn new(plan: &'a Fault) -> Self {
        Self {
            data: vec![],
            plan,
            fired: Fired::default(),
            flushes: 0,
        }
    }
}

impl Write for FaultySink<'_> {
    fn write(&mut self, buf: &[u8]) -> io::Result<usize> {
        let call = self.fired.calls;
        self.fired.calls += 1;
        if buf.is_empty() {
            return Ok(0);
        }
        if let Some(h) = self.plan.hard_at {
            if self.data.len() as u64 >= h {
                self.fired.hard += 1;
                return if self.plan.hard_kind == 2 {
                    Ok(0)
                } else {
                    Err(hard_error(self.plan.hard_kind))
                };
            }
        }
        if self.plan.intr.iter().any(|&c| u64::from(c) == call) {
            self.fired.interrupted += 1;
            return Err(io::Error::new(io::ErrorKind::Interrupted, "simulated: EINTR"));
        }
        let mut n = buf.len();
        if !self.plan.chunks.is_empty() {
            let c = self.plan.chunks[(call as usize) % self.plan.chunks.len()].max(1) as usize;
            if c < n {
                n = c;
                self.fired.short += 1;
            }
        }
        if let Some(h) = self.plan.hard_at {
            let room = (h as usize).saturating_sub(self.data.len());
            if room < n {
                n = room;
            }
        }
        self.data.extend_from_slice(&buf[..n]);
        Ok(n)
    }

    fn flush(&mut self) -> io::Result<()> {
        self.flushes += 1;
        Ok(())
    }
}

/// Hands the sink to the code under test the way its fault plan says (`Fault::wrap`): by `&mut`, or
/// by value inside a buffering adapter that the callee owns and drops.
pub fn hand<'s>(sink: &'s mut FaultySink<'_>) -> Box<dyn Write + 's> {
    let wrap = sink.plan.wrap;
    if wrap != 0 {
        sink.fired.owned_adapter += 1;
    }
    match wrap {
        0 => Box::new(sink),
        1 => Box::new(io::BufWriter::new(sink)),
        2 => Box::new(io::BufWriter::with_capacity(16, sink)),
        _ => Box::new(io::LineWriter::new(sink)),
    }
}

/// Draws a benign fault plan (short transfers and/or EINTR), or none.
pub fn gen_benign(rng: &mut Rng, len_hint: usize) -> Fault {
    let mut f = Fault::default();
    match rng.below(6) {
        0 => {}
        1 => f.chunks = vec![1],
        2 => {
            let n = rng.range(1, 5) as usize;
            f.chunks = (0..n).map(|_| rng.range(1, 13) as u32).collect();
        }
        3 => {
            let n = rng.range(1, 4) as usize;
            f.chunks = (0..n)
                .map(|_| *rng.pick(&[1u32, 2, 3, 7, 8, 9, 64, 4095, 4096, 8191, 8192, 8193]))
                .collect();
        }
        _ => {
            let n = rng.range(1, 3) as usize;
            f.chunks = (0..n).map(|_| rng.range(1, 600) as u32).collect();
        }
    }
    if rng.chance(1, 2) {
        let n = rng.range(1, 4);
        let span = (len_hint / 8).clamp(4, 64) as i64;
        for _ in 0..n {
            let c = if rng.chance(1, 2) {
                rng.range(0, 3)
            } else {
                rng.range(0, span)
            };
            f.intr.push(c as u32);
        }
        f.intr.sort_unstable();
        f.intr.dedup();
    }
    // sinks: handed over by value inside a buffering adapter now and then (readers ignore it)
    if rng.chance(1, 4) {
        f.wrap = 1 + rng.below(3) as u8;
    }
    f
}

/// Draws a hard fault at an offset inside `0..len` (biased to boundaries), on top of an
/// optional benign plan.
pub fn gen_hard(rng: &mut Rng, len: usize, kinds: &[u8]) -> Fault {
    let mut f = if rng.chance(1, 2) {
        gen_benign(rng, len)
    } else {
        Fault {
            wrap: if rng.chance(1, 3) { 1 + rng.below(3) as u8 } else { 0 },
            ..Default::default()
        }
    };
    let len = len.max(1);
    let at = match rng.below(8) {
        0 => 0,
        1 => len - 1,
        2 => rng.usize(len.min(32)),
        3 => len - 1 - rng.usize(len.min(32)),
        4 => len.saturating_sub(rng.usize(8193.min(len)) + 1),
        _ => rng.usize(len),
    };
    f.hard_at = Some(at as u64);
    f.hard_kind = *rng.pick(kinds);
    f
}
