//! vsim — deterministic simulation with fault injection for daac-tools/vibrato.
//!
//! vsim --property Cxx [--tier quick|thorough] [--seed N] [--runs N] [--threads N]
//!      [--replay FILE] [--dump-plan RUN] [--no-evidence] [--quiet]
//!
//! Exit status: 0 = property held on everything explored, 1 = violation (a line
//! `VIOLATION property=<id> replay=<path>` is printed), 2 = harness/usage error.

mod core;
mod corrupt;
mod dictops;
mod hashseam;
mod io;
mod json;
mod minimize;
mod obs;
mod plan;
mod rng;
mod runner;
mod supervise;
mod scen_bigram;
mod scen_build;
mod scen_corpus;
mod scen_dict;
mod scen_image;
mod scen_mecab;
mod scen_model;
mod scen_worker;
mod world;
mod xbuild;

use std::os::fd::FromRawFd;
use std::sync::Mutex;

use crate::core::{Scenario, Tier};

fn scenario(id: &str) -> Option<Box<dyn Scenario>> {
    match id {
        "C04" => Some(Box::new(scen_worker::WorkerScenario)),
        "C05" => Some(Box::new(scen_dict::RoundTripScenario)),
        "C06" => Some(Box::new(scen_dict::MappingScenario)),
        "C07" => Some(Box::new(scen_bigram::BigramScenario)),
        "C08" => Some(Box::new(scen_dict::UserLexScenario)),
        "C09" => Some(Box::new(scen_image::ImageScenario)),
        "C10" => Some(Box::new(scen_build::BuildScenario)),
        "C14" => Some(Box::new(scen_model::ExportScenario)),
        "C15" => Some(Box::new(scen_model::ModelRoundTripScenario)),
        "C16" => Some(Box::new(scen_model::SmallDicScenario)),
        "C13" => Some(Box::new(scen_worker::ReorderScenario)),
        "C19" => Some(Box::new(scen_corpus::CorpusScenario)),
        "C20" => Some(Box::new(scen_mecab::MecabScenario)),
        _ => None,
    }
}

/// vibrato, rucrf and argmin print progress to stdout/stderr; the simulator keeps its own
/// output on a private descriptor and sends theirs to /dev/null.
fn isolate_output() -> std::fs::File {
    unsafe {
        let saved = libc::dup(1);
        let null = libc::open(c"/dev/null".as_ptr(), libc::O_WRONLY);
        if saved < 0 || null < 0 {
            eprintln!("HARNESS-ERROR: cannot set up output descriptors");
            std::process::exit(2);
        }
        if std::env::var("VSIM_KEEP_STDERR").is_err() {
            libc::dup2(null, 2);
        }
        libc::dup2(null, 1);
        libc::close(null);
        std::fs::File::from_raw_fd(saved)
    }
}

fn main() {
    hashseam::install();
    let args: Vec<String> = std::env::args().skip(1).collect();
    let mut prop = None;
    let mut tier = match std::env::var("VERIF_TIER").ok().as_deref() {
        Some("thorough") => Tier::Thorough,
        _ => Tier::Quick,
    };
    let mut seed: u64 = std::env::var("VERIF_SEED")
        .ok()
        .and_then(|s| s.trim().parse::<i128>().ok())
        .map(|v| v.rem_euclid(1i128 << 62) as u64)
        .unwrap_or(1);
    let mut runs = None;
    let mut threads = std::env::var("VSIM_THREADS")
        .ok()
        .and_then(|s| s.parse().ok())
        .unwrap_or_else(|| {
            std::thread::available_parallelism()
                .map(|n| n.get())
                .unwrap_or(4)
        });
    let mut replay = None;
    let mut dump = None;
    let mut evidence = std::env::var("VSIM_NO_EVIDENCE").is_err();
    let mut survey = false;
    let mut xexport: Option<String> = None;
    let mut ximport: Option<String> = None;
    let mut xexporter = String::from("portable");
    let mut xcases: u64 = 100;
    let mut xcase: Option<u64> = None;
    let mut xsummary: Option<String> = None;
    let mut extra_json: Option<String> = None;
    let mut digests_out: Option<String> = None;
    let mut exec_run: Option<u64> = None;
    let mut extra_only = false;
    let mut i = 0;
    while i < args.len() {
        let a = args[i].as_str();
        let mut val = || {
            i += 1;
            args.get(i).cloned().unwrap_or_else(|| {
                eprintln!("missing value for {a}");
                std::process::exit(2)
            })
        };
        match a {
            "--property" => prop = Some(val()),
            "--tier" => {
                tier = match val().as_str() {
                    "quick" => Tier::Quick,
                    "thorough" => Tier::Thorough,
                    t => {
                        eprintln!("unknown tier {t}");
                        std::process::exit(2)
                    }
                }
            }
            "--seed" => seed = val().parse().unwrap_or(1),
            "--runs" => runs = val().parse().ok(),
            "--threads" => threads = val().parse().unwrap_or(threads),
            "--replay" => replay = Some(val()),
            "--dump-plan" => dump = val().parse::<u64>().ok(),
            "--no-evidence" => evidence = false,
            "--survey" => {
                survey = true;
                evidence = false
            }
            "--quiet" => {}
            "--xexport" => xexport = Some(val()),
            "--ximport" => ximport = Some(val()),
            "--xexporter" => xexporter = val(),
            "--xcases" => xcases = val().parse().unwrap_or(100),
            "--xcase" => xcase = val().parse().ok(),
            "--xsummary" => xsummary = Some(val()),
            "--extra-json" => extra_json = Some(val()),
            "--digests" => digests_out = Some(val()),
            "--exec-run" => exec_run = val().parse().ok(),
            "--extra-only" => extra_only = true,
            _ => {
                eprintln!("unknown argument {a}");
                std::process::exit(2)
            }
        }
        i += 1;
    }
    let Some(prop) = prop else {
        eprintln!("usage: vsim --property Cxx [--tier quick|thorough] [--seed N] [--replay FILE]");
        std::process::exit(2)
    };
    let Some(scen) = scenario(&prop) else {
        eprintln!("no scenario for property {prop}");
        std::process::exit(2)
    };
    // crash containment (supervise.rs): batches and replays run in a child process
    let supervised = xexport.is_none() && ximport.is_none() && dump.is_none() && !survey && exec_run.is_none();
    if supervised && std::env::var_os(supervise::ENV_CHILD).is_none() {
        std::process::exit(supervise::parent(scen.as_ref(), tier, seed, replay.as_deref(), &args));
    }
    supervise::child_init();
    let out = isolate_output();
    crate::core::install_panic_hook();
    let opts = runner::Options {
        tier,
        seed,
        threads: threads.max(1),
        runs_override: runs,
        out: Mutex::new(out),
        write_evidence: evidence && replay.is_none() && runs.is_none(),
        survey,
        xsummary,
        extra_json,
        digests_out,
    };
    if xexport.is_some() || ximport.is_some() {
        let range = match xcase {
            Some(c) => c..c + 1,
            None => 0..xcases,
        };
        let say = |l: &str| opts.say(l);
        let st = if let Some(dir) = xexport {
            xbuild::export(&prop, seed, range, &dir, &say)
        } else {
            xbuild::import(&prop, seed, range, &ximport.unwrap(), &xexporter, &say)
        };
        std::process::exit(st);
    }
    let status = if let Some(path) = replay {
        runner::replay(scen.as_ref(), &path, &opts)
    } else if let Some(run) = exec_run {
        runner::exec_run(scen.as_ref(), run, &opts)
    } else if extra_only {
        runner::extra_only(scen.as_ref(), &opts)
    } else if let Some(run) = dump {
        let mut rng = rng::Rng::new(rng::run_seed(seed, scen.id(), run));
        let plan = scen.plan(&mut rng, tier, seed, run);
        opts.say(&plan.to_json().to_string_pretty());
        0
    } else {
        runner::run_batch(scen.as_ref(), &opts)
    };
    std::process::exit(status);
}
