//! Trainer group.
//! C14 — generated dictionary files are the exact image of the trained model (four caller sinks
//!       behind internal BufWriters; "Ok => exact image" under sink faults; the emitted files are
//!       read back from the simulated disk and compile).
//! C15 — a trained model round-trips through write_model/read_model (replicas with warm and cold
//!       merged-model caches, user lexicon added afterwards, faulty streams).
//! C16 — the bigram files agree with matrix.def up to rounding (dictgen -> disk -> compile
//!       pipeline; three consumers of the same files).

use std::collections::BTreeMap;

use vibrato::trainer::{Corpus, Model, Trainer, TrainerConfig};

use crate::core::{catch, panic_violation, Check, Ctx, Scenario, ScenarioInfo, Tier, Violation};
use crate::io::{gen_benign, gen_hard, FaultyReader, FaultySink};
use crate::obs::build_dict;
use crate::plan::{Fault, Op, Plan};
use crate::rng::Rng;
use crate::scen_build::category_order;
use crate::world::{csv_quote, gen_char_def, CONN_DUAL, CONN_MATRIX, CONN_RAW};

// ---------------------------------------------------------------------------------------------
// trainer worlds

const TRAIN_CHARS: &[char] = &['a', 'b', 'A', '1', 'あ', 'ア', '京', '都', 'é', '\u{1F600}', ' ', '-'];

fn gen_train_feature(rng: &mut Rng) -> String {
    let pos = format!("P{}", rng.below(3));
    let sub = match rng.below(8) {
        0 => "*".to_string(),
        1 => "\"s,q\"".to_string(),
        // a value that starts with a double quote and has no comma (needs CSV quoting all the same)
        2 => "\"\"\"in\"".to_string(),
        // a column that is present but empty
        3 if rng.chance(1, 2) => String::new(),
        _ => format!("S{}", rng.below(3)),
    };
    match rng.below(6) {
        0 => pos,
        1 => format!("{pos},{sub}"),
        2 => format!("{pos},{sub},R{},extra", rng.below(2)),
        _ => format!("{pos},{sub},R{}", rng.below(3)),
    }
}

fn gen_surface(rng: &mut Rng) -> String {
    let n = 1 + rng.usize(3);
    let mut s = String::new();
    for _ in 0..n {
        s.push(*rng.pick(TRAIN_CHARS));
    }
    if rng.chance(1, 40) {
        // a carriage return inside a surface (legal in a quoted CSV cell and inside a corpus line)
        let idx = s.char_indices().nth(1).map(|x| x.0).unwrap_or(s.len());
        s.insert(idx, '\r');
        s.push('z');
    }
    if s.trim().is_empty() {
        s.push('a');
    }
    s
}

pub fn gen_train_world(rng: &mut Rng, plan: &mut Plan) {
    let (char_def, cats) = gen_char_def(&mut rng.fork(), None);
    // seed lexicon
    let n_lex = 4 + rng.usize(9);
    let mut rows = vec![];
    let mut seeds: Vec<(String, String)> = vec![];
    for _ in 0..n_lex {
        let (surface, feature) = if !seeds.is_empty() && rng.chance(1, 5) {
            // homograph with another feature, or same feature on another surface
            let (s, f) = rng.pick(&seeds).clone();
            if rng.chance(1, 2) {
                (s, gen_train_feature(rng))
            } else {
                (gen_surface(rng), f)
            }
        } else {
            (gen_surface(rng), gen_train_feature(rng))
        };
        // the parameter columns of a seed row are placeholders: whatever they hold, the row gets
        // trained parameters
        let placeholder = if rng.chance(1, 6) { *rng.pick(&[5000i64, -300, 1, 32767]) } else { 0 };
        rows.push(format!("{},0,0,{placeholder},{}", csv_quote(&surface), feature));
        seeds.push((surface, feature));
    }
    // C15 only (its comparisons are byte-wise; C14 and C16 read these files line by line): a seed
    // word, never used in the corpus, whose feature has a line break inside a quoted cell
    let c15 = plan.prop == "C15";
    if c15 && rng.chance(1, 12) {
        rows.push(format!("{},0,0,0,P{},\"two\nlines\",R1", csv_quote(&gen_surface(rng)), rng.below(3)));
        plan.set_param("multiline_feature", 1);
    }
    let mut lex = rows.join("\n");
    if rng.chance(3, 4) {
        lex.push('\n');
    }
    // unk.def: 1-2 rows per category, file order shuffled now and then
    let mut unk_rows = vec![];
    for c in &cats {
        for _ in 0..1 + rng.usize(2) {
            let f = match rng.below(4) {
                // a bare "*" makes bare %R[0] templates expand to a literal "*" (KF-C16-1): rare
                0 if rng.chance(1, 8) => "*".to_string(),
                0 | 1 => format!("P{},*", rng.below(3)),
                2 => format!("P{},*,*", rng.below(3)),
                _ => format!("UNKP,S{},*", rng.below(2)),
            };
            let placeholder = if rng.chance(1, 8) { *rng.pick(&[300i64, -1, 7]) } else { 0 };
            unk_rows.push(format!("{c},0,0,{placeholder},{f}"));
        }
    }
    // C15 only: a category in the middle of char.def without any unknown-word row
    if c15 && cats.len() >= 3 && rng.chance(1, 10) {
        let victim = format!("{},", cats[1 + rng.usize(cats.len() - 2)]);
        unk_rows.retain(|r| !r.starts_with(&victim));
        plan.set_param("category_without_unk_rows", 1);
    }
    if rng.chance(1, 2) {
        rng.shuffle(&mut unk_rows);
    }
    let unk = unk_rows.join("\n") + "\n";
    // feature.def
    let mut fd = String::new();
    let uni = [
        "U0:%F[0]",
        "U1:%F[0],%F[1]",
        "U2:%F[0],%F?[1]",
        "U3:%F?[2]",
        "T:%t",
        "UT:%F[0]-%t",
        "U4:%F[0],%F[1],%F[2]",
        // a placeholder of another kind is literal text in a unigram template
        "U5:%F[0],%L[0]",
        // no literal text at all: the feature string is the bare column value (possibly empty)
        "%F[1]",
    ];
    let n_uni = 1 + rng.usize(5);
    let mut idx: Vec<usize> = (0..uni.len()).collect();
    rng.shuffle(&mut idx);
    for &i in idx.iter().take(n_uni) {
        fd.push_str(&format!("UNIGRAM {}\n", uni[i]));
    }
    if rng.chance(1, 3) {
        fd.push_str("\n# bigram templates\n");
    }
    let bi = [
        "B0:%L[0]/%R[0]",
        "B1:%L[0],%L[1]/%R[0]",
        "B2:%L[0]/%R[0],%R[1]",
        "B3:%L?[1]/%R[0]",
        "B4:%L[0]/%R?[2]",
        "B5:%L[0],%L?[2]/%R[0],%R?[1]",
        "B6:%L[1]/%R[1]",
        "B7:lit/%R[0]",
        // spaces around the slash: the left features end and the right features start with a blank
        "B8:%L[0] / B8:%R[0]",
        // placeholders of another kind are literal text in a bigram template
        "B9:%L[0],%t/B9:%R[0],%F[0]",
    ];
    let n_bi = 1 + rng.usize(6);
    let mut idx: Vec<usize> = (0..bi.len()).collect();
    rng.shuffle(&mut idx);
    // B6's right side is a bare %R[1], which expands to a literal "*" for features like "P1,*"
    // (the shape of known finding KF-C16-1): kept, but only in about one world in ten
    if !rng.chance(1, 3) {
        idx.retain(|&i| i != 6);
    }
    // ... and never together with an empty column 1: the bare "%R[1]" would expand to the empty
    // string, which the bigram files reserve for BOS/EOS (the same family as KF-C16-1)
    if seeds.iter().any(|(_, f)| crate::scen_bigram::csv_fields(f).get(1).is_some_and(|c| c.is_empty())) {
        idx.retain(|&i| i != 6);
    }
    for &i in idx.iter().take(n_bi) {
        fd.push_str(&format!("BIGRAM {}\n", bi[i]));
    }
    // more than eight templates now and then: only then does a dual connector compiled from the
    // emitted bigram files have a non-trivial pre-summed matrix part
    if rng.chance(1, 10) {
        for i in 0..4 + rng.usize(6) {
            fd.push_str(&format!("BIGRAM T{i}:%L[{}]/T{i}:%R[{}]\n", i % 3, (i + 1) % 3));
        }
    }
    // rewrite.def
    let mut rw = String::new();
    for sec in ["[unigram rewrite]", "[left rewrite]", "[right rewrite]"] {
        rw.push_str(sec);
        rw.push('\n');
        match rng.below(8) {
            0 => {}
            1 => rw.push_str("*,*,*  $1,$2,$3\n"),
            2 => rw.push_str("P0,*  PX,$2\n*,*,*  $1,$2,$3\n"),
            3 => rw.push_str("(P0|P1),*,*  $1,*,$3\n"),
            // a shorter rule registered before a longer one that shares its pattern prefix (the
            // shorter one must keep winning), and the other way round
            4 => rw.push_str("*,*  $1,$2\n*,*,*  $1,$2,LONG\n"),
            5 => rw.push_str("P0  SHORT\nP0,*  MID,$2\nP0,*,*  LONG,$2,$3\n*,*,*  $1,$2,$3\n"),
            6 => rw.push_str("*,*,*  $1,$2,LONG\n*,*  $1,$2\n"),
            _ => rw.push_str("*,*  $1,$2\n"),
        }
        if rng.chance(1, 3) {
            rw.push('\n');
        }
    }
    // corpus
    let n_sent = 1 + rng.usize(6);
    let mut corpus = String::new();
    for _ in 0..n_sent {
        let n_tok = 1 + rng.usize(5);
        for _ in 0..n_tok {
            match rng.below(8) {
                0 => {
                    // unknown word compatible with some unk row (or not)
                    let s = gen_surface(rng);
                    let f = match rng.below(3) {
                        0 => format!("P{},S1,R0", rng.below(3)),
                        1 => "UNKP,S0,zz".to_string(),
                        _ => "NOSUCH,x".to_string(),
                    };
                    corpus.push_str(&format!("{s}\t{f}\n"));
                }
                _ => {
                    let (s, f) = rng.pick(&seeds);
                    corpus.push_str(&format!("{s}\t{f}\n"));
                }
            }
        }
        corpus.push_str("EOS\n");
    }
    // user lexicon for the model: rows to be given trained parameters and rows kept as they are
    let mut user = vec![];
    let twins = rng.chance(1, 3);
    for _ in 0..1 + rng.usize(4) {
        if twins && rng.chance(1, 2) {
            // exact duplicates of seed words asking for trained parameters; several of them often
            // share one feature string while their surfaces start with different character types
            let (s, f) = rng.pick(&seeds).clone();
            let s = if rng.chance(1, 3) { gen_surface(rng) } else { s };
            user.push(format!("{},0,0,0,{}", csv_quote(&s), f));
            continue;
        }
        let s = if rng.chance(1, 2) {
            rng.pick(&seeds).0.clone()
        } else {
            gen_surface(rng)
        };
        let f = match rng.below(5) {
            0 | 1 => rng.pick(&seeds).1.clone(),
            2 | 3 => {
                // a new combination of column values that occur in the seed lexicon: every
                // per-column feature has a trained weight, so the row's total can exceed every
                // seed row's (it may raise the largest absolute weight)
                let pick_col = |rng: &mut Rng, i: usize| -> String {
                    let f = &rng.pick(&seeds).1;
                    crate::scen_bigram::csv_fields(f).get(i).cloned().unwrap_or_else(|| "*".into())
                };
                let cols = [pick_col(rng, 0), pick_col(rng, 1), pick_col(rng, 2)];
                cols.iter().map(|c| csv_quote(c)).collect::<Vec<_>>().join(",")
            }
            _ => format!("PU{},S{},newclass{}", rng.below(2), rng.below(2), rng.below(3)),
        };
        let params = match rng.below(8) {
            0..=3 => "0,0,0".to_string(),
            // both ids 0 but a cost: explicit parameters all the same
            4 => format!("0,0,{}", *rng.pick(&[-1500i64, -1, 1, 7, 32767])),
            // (explicit ids must exist in the model: id 1 always does)
            5 => "1,0,0".to_string(),
            _ => format!("{},{},{}", rng.below(2), 1, rng.range(-500, 500)),
        };
        user.push(format!("{},{},{}", csv_quote(&s), params, f));
    }
    let user = user.join("\n") + "\n";
    plan.set_file("lex.csv", lex);
    plan.set_file("char.def", char_def);
    plan.set_file("unk.def", unk);
    plan.set_file("feature.def", fd);
    plan.set_file("rewrite.def", rw);
    plan.set_file("corpus.txt", corpus);
    plan.set_file("user.csv", user);
    plan.set_param("max_iter", rng.range(5, 30));
}

/// A world with many connection classes (one per word) and a dense corpus: the generated matrix.def
/// and bigram.cost exceed the 8 KiB buffer of the internal BufWriters, so that large writes bypass
/// the buffer and reach the caller's sink directly.
pub fn gen_big_train_world(rng: &mut Rng, plan: &mut Plan) {
    let t = 36 + rng.usize(10);
    let letters: Vec<char> = "abcdefghijklmnopqrstuvwxyz".chars().collect();
    let mut words = vec![];
    let mut lex = String::new();
    for i in 0..t {
        let s: String = [letters[i % 26], letters[(i / 26 + i * 7) % 26], letters[(i * 3) % 26]].iter().collect();
        let f = format!("T{i},S{},R{}", i % 3, i % 2);
        lex.push_str(&format!("{s}{i},0,0,0,{f}\n"));
        words.push((format!("{s}{i}"), f));
    }
    let mut corpus = String::new();
    for _ in 0..40 + rng.usize(20) {
        for _ in 0..20 + rng.usize(10) {
            let (s, f) = rng.pick(&words);
            corpus.push_str(&format!("{s}\t{f}\n"));
        }
        corpus.push_str("EOS\n");
    }
    plan.set_file("lex.csv", lex);
    plan.set_file("char.def", "DEFAULT 0 1 0\nALPHA 1 1 0\nNUM 1 1 0\n0x0061..0x007A ALPHA\n0x0030..0x0039 NUM\n");
    plan.set_file("unk.def", "DEFAULT,0,0,0,UNKP,*,*\nALPHA,0,0,0,UNKA,*,*\nNUM,0,0,0,UNKN,*,*\n");
    plan.set_file("feature.def", "UNIGRAM U0:%F[0]\nUNIGRAM U1:%F[1]\nBIGRAM B0:%L[0]/%R[0]\nBIGRAM B1:%L[1]/%R[2]\n");
    plan.set_file("rewrite.def", "[unigram rewrite]\n[left rewrite]\n[right rewrite]\n");
    plan.set_file("corpus.txt", corpus);
    let (us, uf) = rng.pick(&words).clone();
    plan.set_file("user.csv", format!("{us}x,0,0,0,{uf}\nzz9,1,1,7,T0,S0,R0\n"));
    plan.set_param("max_iter", rng.range(2, 4));
    plan.set_param("big_world", 1);
}

/// Wall-clock budget of one training. A training of these worlds takes 5-300 ms; in rare degenerate
/// worlds (about 1 in 20 000) the backtracking line search of argmin, used by rucrf, never
/// terminates. Such a world is outside the properties' quantifier ("for which training succeeds"):
/// the run is skipped and counted, never a verdict. The budget only separates "milliseconds" from
/// "forever" (100x margin), like the watchdog; the abandoned training thread is leaked.
const TRAIN_BUDGET_SECS: u64 = 10;

/// Trains the plan's model. Ok(None): configuration rejected or training did not succeed (outside
/// the properties' quantifier), counted and skipped.
pub fn train(plan: &Plan, ctx: &mut Ctx) -> Result<Option<Model>, Violation> {
    let files: Vec<Vec<u8>> = ["lex.csv", "char.def", "unk.def", "feature.def", "rewrite.def", "corpus.txt"]
        .iter()
        .map(|n| plan.file(n).to_vec())
        .collect();
    let max_iter = plan.param("max_iter").clamp(1, 100) as u64;
    let (tx, rx) = std::sync::mpsc::channel();
    let hash_key = crate::hashseam::plan_key(plan.seed, plan.run) ^ 0x7472_6169_6e;
    let spawned = std::thread::Builder::new().name("train".into()).spawn(move || {
        crate::hashseam::begin_run(hash_key);
        let r = catch(|| -> Result<Model, String> {
            let config = TrainerConfig::from_readers(
                files[0].as_slice(),
                files[1].as_slice(),
                files[2].as_slice(),
                files[3].as_slice(),
                files[4].as_slice(),
            )
            .map_err(|e| format!("config: {e}"))?;
            let corpus = Corpus::from_reader(files[5].as_slice()).map_err(|e| format!("corpus: {e}"))?;
            let trainer = Trainer::new(config)
                .map_err(|e| format!("trainer: {e}"))?
                .max_iter(max_iter)
                .num_threads(1);
            trainer.train(corpus).map_err(|e| format!("train: {e}"))
        });
        let _ = tx.send(r);
    });
    if spawned.is_err() {
        return Err(Violation::new("harness.spawn", "cannot spawn the training thread"));
    }
    let r = match rx.recv_timeout(std::time::Duration::from_secs(TRAIN_BUDGET_SECS)) {
        Ok(r) => r,
        Err(_) => {
            ctx.count("train.nonterminating_in_dependency");
            ctx.event("train", "skipped: the optimiser (argmin line search inside rucrf) did not terminate");
            return Ok(None);
        }
    };
    match r {
        Ok(Ok(m)) => Ok(Some(m)),
        Ok(Err(e)) => {
            ctx.count("train.rejected");
            ctx.event("train", &format!("Err({e})"));
            Ok(None)
        }
        Err(p) => {
            // a panic inside vibrato's own trainer glue is a defect; inside rucrf/argmin it means
            // "training did not succeed" for this degenerate world
            if p.file.contains("vibrato/src/") {
                Err(panic_violation("train", "Trainer on a valid configuration", &p))
            } else {
                ctx.count("train.panicked_in_dependency");
                ctx.event("train", &format!("panic in dependency: {}", p.site()));
                Ok(None)
            }
        }
    }
}

#[derive(Clone, Debug, Default, PartialEq, Eq)]
pub struct DictFiles {
    pub lex: Vec<u8>,
    pub matrix: Vec<u8>,
    pub unk: Vec<u8>,
    pub user: Vec<u8>,
}

#[derive(Clone, Debug, Default, PartialEq, Eq)]
pub struct BigramFiles {
    pub left: Vec<u8>,
    pub right: Vec<u8>,
    pub cost: Vec<u8>,
}

pub struct SinkOutcome {
    pub result: Result<Result<(), String>, crate::core::PanicInfo>,
    pub hard_fired: bool,
}

/// `write_dictionary` into four simulated files.
pub fn write_dictionary(model: &mut Model, op: Option<&Op>, ctx: &mut Ctx) -> (SinkOutcome, DictFiles) {
    let f = |n: &str| op.map(|o| o.get_fault(n)).unwrap_or_default();
    let (f1, f2, f3, f4) = (f("lex"), f("matrix"), f("unk"), f("user"));
    let mut s1 = FaultySink::new(&f1);
    let mut s2 = FaultySink::new(&f2);
    let mut s3 = FaultySink::new(&f3);
    let mut s4 = FaultySink::new(&f4);
    let r = catch(|| {
        model
            .write_dictionary(crate::io::hand(&mut s1), crate::io::hand(&mut s2), crate::io::hand(&mut s3), crate::io::hand(&mut s4))
            .map_err(|e| e.to_string())
    });
    let mut hard = false;
    for s in [&s1, &s2, &s3, &s4] {
        ctx.fired(&s.fired);
        hard |= s.fired.hard > 0;
    }
    (
        SinkOutcome {
            result: r,
            hard_fired: hard,
        },
        DictFiles {
            lex: s1.data,
            matrix: s2.data,
            unk: s3.data,
            user: s4.data,
        },
    )
}

pub fn write_bigram_details(model: &mut Model, op: Option<&Op>, ctx: &mut Ctx) -> (SinkOutcome, BigramFiles) {
    let f = |n: &str| op.map(|o| o.get_fault(n)).unwrap_or_default();
    let (f1, f2, f3) = (f("bigram.left"), f("bigram.right"), f("bigram.cost"));
    let mut s1 = FaultySink::new(&f1);
    let mut s2 = FaultySink::new(&f2);
    let mut s3 = FaultySink::new(&f3);
    let r = catch(|| {
        model
            .write_bigram_details(crate::io::hand(&mut s1), crate::io::hand(&mut s2), crate::io::hand(&mut s3))
            .map_err(|e| e.to_string())
    });
    let mut hard = false;
    for s in [&s1, &s2, &s3] {
        ctx.fired(&s.fired);
        hard |= s.fired.hard > 0;
    }
    (
        SinkOutcome {
            result: r,
            hard_fired: hard,
        },
        BigramFiles {
            left: s1.data,
            right: s2.data,
            cost: s3.data,
        },
    )
}

pub const KF_RUCRF: &str = "KF-RUCRF-1";
use crate::core::STOP;

/// Structural predicate of known finding KF-RUCRF-1: the trained model has no bigram weight at all
/// (`bigram_weight_indices` is empty: no bigram template ever applied during training) and a user
/// lexicon was read afterwards. `rucrf::RawModel::merge()` then indexes `bigram_weight_indices[0]`
/// for the user rows' features and panics.
fn rucrf_gap(model: &Model) -> bool {
    model.verif_raw_model().bigram_weight_indices().is_empty() && !model.verif_user_entries().is_empty()
}

fn must_ok(prefix: &str, what: &str, o: SinkOutcome, gap: bool, ctx: &mut Ctx) -> Check {
    match o.result {
        Ok(Ok(())) => Ok(()),
        Ok(Err(e)) => Err(Violation::new(&format!("{prefix}.err"), format!("{what} failed without any fault: {e}"))),
        Err(p) if gap && p.file.contains("rucrf") && p.file.ends_with("src/model.rs") => {
            ctx.known_finding(
                KF_RUCRF,
                &format!("{what} panics inside rucrf::RawModel::merge() for a model without any bigram weight after read_user_lexicon: {}", p.brief()),
            )?;
            Err(Violation::new(STOP, ""))
        }
        Err(p) => Err(panic_violation(prefix, what, &p)),
    }
}


/// (surface unquoted, three numeric fields verbatim, feature verbatim) of a lexicon-style row.
pub fn split_lex_row(line: &str) -> Option<(String, [String; 3], String)> {
    let mut rest = line;
    let surface;
    if let Some(stripped) = rest.strip_prefix('"') {
        // quoted first field
        let mut out = String::new();
        let mut it = stripped.char_indices().peekable();
        let mut end = None;
        while let Some((i, c)) = it.next() {
            if c == '"' {
                if let Some(&(_, '"')) = it.peek() {
                    out.push('"');
                    it.next();
                } else {
                    end = Some(i + 1);
                    break;
                }
            } else {
                out.push(c);
            }
        }
        let end = end?;
        surface = out;
        rest = stripped[end..].strip_prefix(',')?;
    } else {
        let (a, b) = rest.split_once(',')?;
        surface = a.to_string();
        rest = b;
    }
    let (a, rest) = rest.split_once(',')?;
    let (b, rest) = rest.split_once(',')?;
    let (c, feature) = rest.split_once(',')?;
    Some((surface, [a.to_string(), b.to_string(), c.to_string()], feature.to_string()))
}

fn nonempty_lines(data: &[u8]) -> Vec<String> {
    String::from_utf8_lossy(data)
        .lines()
        .filter(|l| !l.is_empty())
        .map(|l| l.to_string())
        .collect()
}

fn expected_cost(w: f64, max: f64) -> [i64; 2] {
    if max == 0.0 {
        return [0, 0];
    }
    let a = (-w * (32767.0 / max)).trunc();
    let b = ((-w * 32767.0) / max).trunc();
    [a as i64, b as i64]
}

/// C14's reference image, recomputed from the raw model through rucrf's public merge().
fn check_dictionary_image(plan: &Plan, model: &Model, files: &DictFiles, ctx: &mut Ctx) -> Check {
    let merged = catch(|| model.verif_raw_model().merge().map_err(|e| e.to_string()))
        .map_err(|p| panic_violation("C14.merge", "RawModel::merge", &p))?
        .map_err(|e| Violation::new("C14.merge.err", e))?;
    let mut max = 0f64;
    for fs in &merged.feature_sets {
        max = max.max(fs.weight.abs());
    }
    for hm in &merged.matrix {
        for &w in hm.values() {
            max = max.max(w.abs());
        }
    }
    let num_right = merged.right_conn_to_left_feats.len() + 1;
    let num_left = merged.left_conn_to_right_feats.len() + 1;
    let cost_ok = |got: &str, w: f64| -> bool {
        got.parse::<i64>().is_ok_and(|g| expected_cost(w, max).contains(&g) && (-32768..=32767).contains(&g))
    };
    // --- lex.csv: one row per seed row, in order
    let seed = nonempty_lines(plan.file("lex.csv"));
    let out = nonempty_lines(&files.lex);
    let seed_rows: Vec<_> = seed.iter().filter_map(|l| split_lex_row(l)).filter(|r| !r.0.is_empty()).collect();
    if out.len() != seed_rows.len() {
        return Err(Violation::new(
            "C14.lex.rows",
            format!("lex.csv has {} rows for {} seed rows", out.len(), seed_rows.len()),
        ));
    }
    let mut class_sharing = BTreeMap::new();
    for (i, (line, seed)) in out.iter().zip(&seed_rows).enumerate() {
        let Some((surface, [l, r, c], feature)) = split_lex_row(line) else {
            return Err(Violation::new("C14.lex.format", format!("row {i} {line:?} is not surface,left,right,cost,feature")));
        };
        let fs = merged.feature_sets.get(i).ok_or_else(|| Violation::new("C14.labels", "fewer labels than seed rows"))?;
        if surface != seed.0 {
            return Err(Violation::new("C14.lex.surface", format!("row {i}: surface {surface:?}, seed row has {:?}", seed.0)));
        }
        if feature != seed.2 {
            return Err(Violation::new("C14.lex.feature", format!("row {i}: feature {feature:?}, seed row has {:?}", seed.2)));
        }
        if l != fs.left_id.get().to_string() || r != fs.right_id.get().to_string() {
            return Err(Violation::new(
                "C14.lex.ids",
                format!("row {i} {line:?}: ids ({l},{r}), the merged model's classes are (left={}, right={})", fs.left_id, fs.right_id),
            ));
        }
        if fs.left_id.get() as usize >= num_left || fs.right_id.get() as usize >= num_right {
            return Err(Violation::new("C14.lex.id_range", format!("row {i}: ids outside the matrix dimensions {num_right}x{num_left}")));
        }
        if !cost_ok(&c, fs.weight) {
            return Err(Violation::new(
                "C14.lex.cost",
                format!("row {i} {line:?}: cost {c}, expected trunc(-({}) * 32767 / {max}) = {:?}", fs.weight, expected_cost(fs.weight, max)),
            ));
        }
        *class_sharing.entry((fs.left_id, fs.right_id)).or_insert(0) += 1;
        if fs.weight.abs() == max && max > 0.0 {
            ctx.count("probe.max_weight_is_unigram");
        }
    }
    if class_sharing.values().any(|&n| n >= 2) {
        ctx.count("probe.words_sharing_a_class");
    }
    // --- unk.def: one row per seed entry grouped in category-id order
    let cats = category_order(&plan.file_str("char.def"))
        .ok_or_else(|| Violation::new("C14.plan", "the harness cannot interpret the plan's char.def"))?;
    let seed_unk: Vec<_> = nonempty_lines(plan.file("unk.def")).iter().filter_map(|l| split_lex_row(l)).collect();
    let mut grouped = vec![];
    for c in &cats {
        for r in seed_unk.iter().filter(|r| &r.0 == c) {
            grouped.push(r.clone());
        }
    }
    let out = nonempty_lines(&files.unk);
    if out.len() != grouped.len() {
        return Err(Violation::new("C14.unk.rows", format!("unk.def has {} rows for {} seed entries", out.len(), grouped.len())));
    }
    for (j, (line, seed)) in out.iter().zip(&grouped).enumerate() {
        let Some((cate, [l, r, c], feature)) = split_lex_row(line) else {
            return Err(Violation::new("C14.unk.format", format!("row {j} {line:?} is malformed")));
        };
        let fs = merged
            .feature_sets
            .get(seed_rows.len() + j)
            .ok_or_else(|| Violation::new("C14.labels", "fewer labels than unknown entries"))?;
        if cate != seed.0 || feature != seed.2 {
            return Err(Violation::new(
                "C14.unk.order",
                format!("unk row {j} is {cate},{feature}; grouped in category order the seed entry is {},{}", seed.0, seed.2),
            ));
        }
        if l != fs.left_id.get().to_string() || r != fs.right_id.get().to_string() || !cost_ok(&c, fs.weight) {
            return Err(Violation::new(
                "C14.unk.params",
                format!("unk row {j} {line:?}: expected ids ({},{}) and cost {:?}", fs.left_id, fs.right_id, expected_cost(fs.weight, max)),
            ));
        }
    }
    // --- matrix.def
    let text = String::from_utf8_lossy(&files.matrix).into_owned();
    let mut lines = text.lines();
    let header = lines.next().unwrap_or("");
    if header != format!("{num_right} {num_left}") {
        return Err(Violation::new("C14.matrix.header", format!("header {header:?}, the merged model has {num_right} right and {num_left} left classes (incl. BOS/EOS)")));
    }
    let mut expected: BTreeMap<(usize, u32), f64> = BTreeMap::new();
    for (r, hm) in merged.matrix.iter().enumerate() {
        for (&l, &w) in hm {
            expected.insert((r, l), w);
        }
    }
    let mut seen = 0;
    let mut prev: Option<(usize, u32)> = None;
    let mut emitted_matrix: BTreeMap<(usize, u32), String> = BTreeMap::new();
    for line in lines {
        let cols: Vec<&str> = line.split(' ').collect();
        let parsed = (cols.len() == 3)
            .then(|| Some((cols[0].parse::<usize>().ok()?, cols[1].parse::<u32>().ok()?)))
            .flatten();
        let Some((r, l)) = parsed else {
            return Err(Violation::new("C14.matrix.format", format!("line {line:?} is malformed")));
        };
        if r >= num_right || l as usize >= num_left {
            return Err(Violation::new("C14.matrix.range", format!("line {line:?} outside {num_right}x{num_left}")));
        }
        let Some(&w) = expected.get(&(r, l)) else {
            return Err(Violation::new("C14.matrix.extra", format!("line {line:?} has no counterpart in the merged model")));
        };
        if !cost_ok(cols[2], w) {
            return Err(Violation::new(
                "C14.matrix.cost",
                format!("line {line:?}: expected trunc(-({w}) * 32767 / {max}) = {:?}", expected_cost(w, max)),
            ));
        }
        if prev.is_some_and(|p| p >= (r, l)) {
            return Err(Violation::new("C14.matrix.order", format!("line {line:?} out of order or duplicated")));
        }
        prev = Some((r, l));
        emitted_matrix.insert((r, l), cols[2].to_string());
        seen += 1;
        if w.abs() == max && max > 0.0 {
            ctx.count("probe.max_weight_is_matrix_entry");
        }
    }
    if seen != expected.len() {
        return Err(Violation::new("C14.matrix.missing", format!("{seen} entries written, the merged model has {}", expected.len())));
    }
    // --- user lexicon
    let entries = model.verif_user_entries();
    let out = nonempty_lines(&files.user);
    if out.len() != entries.len() {
        return Err(Violation::new("C14.user.rows", format!("user file has {} rows for {} user entries", out.len(), entries.len())));
    }
    // independent of the label the model stored for the row: a row that duplicates a seed word
    // (same surface, same feature string) and asks for trained parameters is the same word, so it
    // must get that word's cost (the class ids may be numbered differently)
    let emitted_lex: Vec<_> = nonempty_lines(&files.lex).iter().filter_map(|l| split_lex_row(l)).collect();
    for (k, (line, e)) in out.iter().zip(&entries).enumerate() {
        let Some((surface, [l, r, c], feature)) = split_lex_row(line) else {
            return Err(Violation::new("C14.user.format", format!("row {k} {line:?} is malformed")));
        };
        if e.2 == (0, 0, 0) {
            if let Some(twin) = emitted_lex.iter().find(|t| t.0 == surface && t.2 == feature) {
                ctx.count("probe.user_row_duplicates_seed_word");
                if twin.1[2] != c {
                    return Err(Violation::new(
                        "C14.user.twin",
                        format!("user row {k} {line:?} (given as 0,0,0) is the same word as the seed row with cost {}, but got cost {c}", twin.1[2]),
                    ));
                }
                // ... and it must connect like that word: its classes may be numbered differently,
                // but their matrix row and column must hold the same costs
                let id = |t: &str| t.parse::<usize>().ok();
                if let (Some(ul), Some(ur), Some(sl), Some(sr)) = (id(&l), id(&r), id(&twin.1[0]), id(&twin.1[1])) {
                    let cell = |r: usize, l: usize| emitted_matrix.get(&(r, l as u32)).map(|s| s.as_str()).unwrap_or("0");
                    for x in 0..num_left {
                        if cell(ur, x) != cell(sr, x) {
                            return Err(Violation::new(
                                "C14.user.twin_connection",
                                format!("user row {k} {line:?} is the same word as a seed row with right id {sr}, but matrix.def has ({ur},{x}) = {} and ({sr},{x}) = {}", cell(ur, x), cell(sr, x)),
                            ));
                        }
                    }
                    for x in 0..num_right {
                        if cell(x, ul) != cell(x, sl) {
                            return Err(Violation::new(
                                "C14.user.twin_connection",
                                format!("user row {k} {line:?} is the same word as a seed row with left id {sl}, but matrix.def has ({x},{ul}) = {} and ({x},{sl}) = {}", cell(x, ul), cell(x, sl)),
                            ));
                        }
                    }
                }
            }
        }
        if surface != e.0 || feature != e.1 {
            return Err(Violation::new("C14.user.text", format!("row {k} {line:?}: surface/feature differ from the entry ({:?},{:?})", e.0, e.1)));
        }
        if e.2 == (0, 0, 0) {
            ctx.count("probe.user_row_trained");
            let fs = merged
                .feature_sets
                .get(e.3 as usize - 1)
                .ok_or_else(|| Violation::new("C14.labels", "user label out of range"))?;
            if fs.weight.abs() == max && max > 0.0 && e.3 as usize > seed_rows.len() + grouped.len() {
                ctx.count("probe.max_weight_is_user_row");
            }
            if l != fs.left_id.get().to_string() || r != fs.right_id.get().to_string() || !cost_ok(&c, fs.weight) {
                return Err(Violation::new(
                    "C14.user.trained",
                    format!("row {k} {line:?} (given as 0,0,0): expected ids ({},{}) cost {:?}", fs.left_id, fs.right_id, expected_cost(fs.weight, max)),
                ));
            }
        } else {
            ctx.count("probe.user_row_kept");
            if l != e.2 .0.to_string() || r != e.2 .1.to_string() || c != e.2 .2.to_string() {
                return Err(Violation::new(
                    "C14.user.overwritten",
                    format!("row {k} {line:?}: explicit parameters {:?} were not copied unchanged", e.2),
                ));
            }
        }
    }
    Ok(())
}

/// Compiles the emitted files (read back through benign-faulty readers) with the training char.def.
fn compile_emitted(
    prefix: &str,
    plan: &Plan,
    files: &BTreeMap<String, Vec<u8>>,
    conn: i64,
    order_seed: u64,
    op: Option<&Op>,
    ctx: &mut Ctx,
) -> Result<vibrato::Dictionary, Violation> {
    let mut f = files.clone();
    f.insert("char.def".into(), plan.file("char.def").to_vec());
    match build_dict(&f, conn, order_seed, op, ctx) {
        Ok(Ok(d)) => Ok(d),
        Ok(Err(e)) => Err(Violation::new(
            &format!("{prefix}.compile.err"),
            format!("the emitted files do not compile ({}): {e}", ["matrix", "raw", "dual"][conn.clamp(0, 2) as usize]),
        )),
        Err(p) => Err(panic_violation(&format!("{prefix}.compile"), "compiling the emitted files", &p)),
    }
}

fn dict_file_map(d: &DictFiles, b: Option<&BigramFiles>) -> BTreeMap<String, Vec<u8>> {
    let mut m = BTreeMap::new();
    m.insert("lex.csv".to_string(), d.lex.clone());
    m.insert("matrix.def".to_string(), d.matrix.clone());
    m.insert("unk.def".to_string(), d.unk.clone());
    if let Some(b) = b {
        m.insert("bigram.left".to_string(), b.left.clone());
        m.insert("bigram.right".to_string(), b.right.clone());
        m.insert("bigram.cost".to_string(), b.cost.clone());
    }
    m
}

const DICT_SINKS: &[&str] = &["lex", "matrix", "unk", "user"];
const BIGRAM_SINKS: &[&str] = &["bigram.left", "bigram.right", "bigram.cost"];

fn sink_len(files: &DictFiles, name: &str) -> usize {
    match name {
        "lex" => files.lex.len(),
        "matrix" => files.matrix.len(),
        "unk" => files.unk.len(),
        _ => files.user.len(),
    }
}

fn bigram_len(files: &BigramFiles, name: &str) -> usize {
    match name {
        "bigram.left" => files.left.len(),
        "bigram.right" => files.right.len(),
        _ => files.cost.len(),
    }
}

/// Plans `n` sink-fault operations: the offset is a fraction of the (not yet known) file length.
fn plan_sink_faults(rng: &mut Rng, plan: &mut Plan, kind: &str, sinks: &[&str], n: usize) {
    for _ in 0..n {
        let sink = *rng.pick(sinks);
        let frac = match rng.below(6) {
            0 => 0,
            1 => (1i64 << 32) - 1,
            _ => rng.range(0, (1 << 32) - 1),
        };
        let mut op = Op::new(kind).s(sink).n(&[frac, *rng.pick(&[0i64, 1, 2])]);
        if rng.chance(1, 2) {
            // benign faults on the other sinks at the same time
            for s in sinks {
                if *s != sink && rng.chance(1, 2) {
                    op = op.fault(s, gen_benign(rng, 512));
                }
            }
        }
        if rng.chance(1, 3) {
            let mut f = gen_benign(rng, 512);
            f.hard_at = None;
            op = op.fault(sink, f);
        }
        plan.ops.push(op);
    }
}

fn sorted_lines(data: &[u8]) -> Vec<String> {
    let mut v = nonempty_lines(data);
    v.sort();
    v
}

// =============================================================================================
// C14

pub struct ExportScenario;

impl Scenario for ExportScenario {
    fn id(&self) -> &'static str {
        "C14"
    }
    fn runs(&self, tier: Tier) -> u64 {
        match tier {
            Tier::Quick => 3_000,
            Tier::Thorough => 40_000,
        }
    }
    fn plan(&self, rng: &mut Rng, _tier: Tier, seed: u64, run: u64) -> Plan {
        let mut plan = Plan::new("C14", seed, run);
        if rng.chance(1, 30) {
            gen_big_train_world(rng, &mut plan);
        } else {
            gen_train_world(rng, &mut plan);
        }
        if rng.chance(2, 3) {
            if rng.chance(2, 3) {
                // warm the merged-model cache (and whatever else an export computes) before the
                // user lexicon arrives
                plan.ops.push(Op::new("Gen"));
            }
            if rng.chance(1, 3) {
                // the model goes through write_model / read_model first, as when the train tool
                // saves it and the dictgen tool loads it
                plan.ops.push(Op::new("Reload"));
            }
            plan.ops.push(Op::new("AddUser").fault("user.csv", gen_benign(rng, 64)));
        }
        plan.ops.push(Op::new("Gen"));
        plan.ops.push(
            Op::new("GenBenign")
                .fault("lex", gen_benign(rng, 512))
                .fault("matrix", gen_benign(rng, 512))
                .fault("unk", gen_benign(rng, 512))
                .fault("user", gen_benign(rng, 512)),
        );
        let n = 4 + rng.usize(12);
        plan_sink_faults(rng, &mut plan, "GenFault", DICT_SINKS, n);
        let mut c = Op::new("Compile");
        for f in ["lex.csv", "matrix.def", "unk.def", "char.def"] {
            if rng.chance(1, 2) {
                c = c.fault(f, gen_benign(rng, 512));
            }
        }
        plan.ops.push(c);
        plan
    }

    fn execute(&self, plan: &Plan, ctx: &mut Ctx) -> Check {
        let Some(mut model) = train(plan, ctx)? else {
            return Ok(());
        };
        ctx.state_changes += 1;
        ctx.event("train", "ok");
        let mut reference: Option<DictFiles> = None;
        for op in &plan.ops {
            match op.kind.as_str() {
                "Reload" => {
                    let mut bytes = vec![];
                    match catch(|| model.write_model(&mut bytes).map_err(|e| e.to_string())) {
                        Ok(Ok(_)) => {}
                        Ok(Err(e)) => return Err(Violation::new("C14.reload.write", format!("write_model failed: {e}"))),
                        Err(p) => return Err(panic_violation("C14.reload", "write_model", &p)),
                    }
                    model = match catch(|| Model::read_model(bytes.as_slice()).map_err(|e| e.to_string())) {
                        Ok(Ok(m)) => m,
                        Ok(Err(e)) => return Err(Violation::new("C14.reload.read", format!("read_model rejected what write_model wrote: {e}"))),
                        Err(p) => return Err(panic_violation("C14.reload", "read_model", &p)),
                    };
                    ctx.count("probe.model_reloaded_before_export");
                    ctx.event("reload", "ok");
                }
                "AddUser" => {
                    let f = op.get_fault("user.csv");
                    let mut rdr = FaultyReader::new(plan.file("user.csv"), &f);
                    let r = catch(|| model.read_user_lexicon(&mut rdr).map_err(|e| e.to_string()));
                    ctx.fired(&rdr.fired);
                    match r {
                        Ok(Ok(())) => ctx.event("add user", "ok"),
                        Ok(Err(e)) => return Err(Violation::new("C14.user.rejected", format!("valid user lexicon rejected: {e}"))),
                        Err(p) => return Err(panic_violation("C14.user", "read_user_lexicon", &p)),
                    }
                }
                "Gen" => {
                    let (o, files) = write_dictionary(&mut model, None, ctx);
                    must_ok("C14.gen", "write_dictionary", o, rucrf_gap(&model), ctx)?;
                    check_dictionary_image(plan, &model, &files, ctx)?;
                    ctx.observations += 1;
                    if files.matrix.len() > 8192 {
                        ctx.count("probe.matrix_def_over_8k");
                    }
                    ctx.event("gen", &format!("{}+{}+{}+{} bytes = reference image", files.lex.len(), files.matrix.len(), files.unk.len(), files.user.len()));
                    reference = Some(files);
                }
                "GenBenign" => {
                    let Some(reference) = reference.as_ref() else { continue };
                    let (o, files) = write_dictionary(&mut model, Some(op), ctx);
                    must_ok("C14.gen_benign", "write_dictionary through short writes/EINTR", o, rucrf_gap(&model), ctx)?;
                    if &files != reference {
                        return Err(Violation::new("C14.benign.bytes", "files written through short-write/EINTR sinks differ from the plain ones"));
                    }
                    ctx.observations += 1;
                    ctx.event("gen (benign faults)", "identical bytes");
                }
                "GenFault" => {
                    let Some(reference) = reference.as_ref() else { continue };
                    if rucrf_gap(&model) {
                        continue;
                    }
                    let sink = op.str(0);
                    if !DICT_SINKS.contains(&sink) {
                        continue;
                    }
                    let len = sink_len(reference, sink);
                    if len == 0 {
                        continue;
                    }
                    let k = ((op.num(0) as u128 * len as u128) >> 32) as u64;
                    let mut op2 = op.clone();
                    let mut f = op.get_fault(sink);
                    f.hard_at = Some(k.min(len as u64 - 1));
                    f.hard_kind = op.num(1) as u8;
                    op2.faults.insert(sink.to_string(), f);
                    let (o, files) = write_dictionary(&mut model, Some(&op2), ctx);
                    ctx.observations += 1;
                    if len - (k as usize) <= 8192 {
                        ctx.count("probe.fault_in_last_buffer");
                    }
                    match o.result {
                        Ok(Err(_)) => ctx.event(&op.brief(), "Err"),
                        Ok(Ok(())) => {
                            return Err(Violation::new(
                                "C14.fault.ok",
                                format!(
                                    "write_dictionary returned Ok although the {sink} sink failed at byte {k} of {len}: {} of {len} bytes reached it",
                                    sink_len(&files, sink)
                                ),
                            ))
                        }
                        Err(p) => return Err(panic_violation("C14.fault", &op.brief(), &p)),
                    }
                }
                "Compile" => {
                    let Some(reference) = reference.as_ref() else { continue };
                    let files = dict_file_map(reference, None);
                    let d = compile_emitted("C14", plan, &files, CONN_MATRIX, 0, Some(op), ctx)?;
                    // the emitted user file loads (explicit ids are generated in range)
                    if !reference.user.is_empty() {
                        let none = Fault::default();
                        match crate::dictops::load_user(d, &reference.user, &none, ctx) {
                            Ok(Ok(_)) => {}
                            Ok(Err(e)) => return Err(Violation::new("C14.user.load", format!("the emitted user lexicon does not load: {e}"))),
                            Err(p) => return Err(panic_violation("C14.user.load", "loading the emitted user lexicon", &p)),
                        }
                    }
                    ctx.observations += 1;
                    ctx.event("compile", "ok");
                }
                other => return Err(Violation::new("C14.plan", format!("unknown op {other}"))),
            }
        }
        Ok(())
    }

    fn describe(&self) -> ScenarioInfo {
        ScenarioInfo {
            level: "exploration",
            rule: "one seeded run = a seeded trainer world (seed lexicon 4-12 rows with homographs and quoted features, unk.def 1-2 rows per category in shuffled file order, 1-5 unigram and 1-6 bigram templates with optional references, seeded rewrite rules, corpus of 1-6 sentences with known, unknown-compatible and virtual-edge words, max_iter 5-30, one thread) trained with the real trainer; optional read_user_lexicon (rows given as 0,0,0 and rows with explicit parameters); write_dictionary fault-free (compared field by field with the reference image recomputed from RawModel::merge(): row order, surfaces, verbatim features, merged class ids, header dimensions, every cost == trunc(-w*32767/max|w|), matrix entry set and order, user rows), through short-write/EINTR sinks (identical bytes), and with a hard fault at a seeded offset of one of the four sinks (must return Err, never Ok with a short file); the emitted files are read back through benign-faulty readers and must compile, the emitted user file must load. Added later: user rows that duplicate a seed word (1 world in 3; such a row given as 0,0,0 must get the seed word's cost and a matrix row/column with the same costs), user rows with ids 0,0 and a non-zero cost (kept), a CR inside a surface (1 in 40), empty feature columns, unigram/bigram templates without literal text or with placeholders of another kind, 1 world in 10 with 10-15 bigram templates; sinks by &mut or owned BufWriter/LineWriter. Round 5: 1 run in 3 of those with a user lexicon sends the model through write_model/read_model first (the train -> dictgen flow). Round 6: seed lex.csv/unk.def rows carry non-zero placeholder costs now and then (they must not survive). distinct_nontrivial = distinct plan hashes of runs whose training succeeded and that made >= 1 comparison",
            assumptions: vec![
                "rucrf's RawModel::merge() is the trusted definition of the merged classes and weights",
                "costs are accepted under either floating evaluation order of -w*32767/max|w|",
                "worlds whose training fails or panics inside rucrf/argmin are outside the quantifier and skipped (counted)",
                "feature values contain no '/' or tab",
            ],
            real: vec!["TrainerConfig, Trainer::train (rucrf, 1 thread), Model::{read_user_lexicon,write_dictionary}, SystemDictionaryBuilder (read-back)"],
            stub: vec!["the four output files and all input files (FaultySink/FaultyReader over memory)"],
            probes: vec![
                "probe.user_row_trained",
                "probe.user_row_kept",
                "probe.user_row_duplicates_seed_word",
                "probe.model_reloaded_before_export",
                "probe.words_sharing_a_class",
                "probe.max_weight_is_unigram",
                "probe.max_weight_is_matrix_entry",
                "probe.fault_in_last_buffer",
                "probe.matrix_def_over_8k",
                "fault.short_transfer",
                "fault.interrupted",
                "fault.hard",
            ],
        }
    }

    fn extra(&self, tier: Tier, seed: u64, rep: &mut crate::runner::BatchReport) {
        // every byte offset of every sink, for a few models (exhaustive per model)
        let models = match tier {
            Tier::Quick => 2,
            Tier::Thorough => 40,
        };
        let mut done = 0;
        let mut idx = 0u64;
        let mut points = 0u64;
        while done < models && idx < models as u64 * 4 {
            let mut rng = Rng::new(crate::rng::run_seed(seed, "C14-enum", idx));
            idx += 1;
            let mut plan = Plan::new("C14", seed, u64::MAX - idx);
            gen_train_world(&mut rng, &mut plan);
            plan.ops.push(Op::new("AddUser"));
            plan.ops.push(Op::new("Gen"));
            crate::hashseam::begin_plan(&plan);
            let mut ctx = Ctx::new(false);
            let Ok(Some(mut model)) = train(&plan, &mut ctx) else { continue };
            let _ = catch(|| model.read_user_lexicon(plan.file("user.csv")));
            let (o, reference) = write_dictionary(&mut model, None, &mut ctx);
            if !matches!(o.result, Ok(Ok(()))) {
                continue;
            }
            done += 1;
            for sink in DICT_SINKS {
                let len = sink_len(&reference, sink);
                for k in 0..len {
                    for kind in [0u8, 2] {
                        let f = Fault {
                            hard_at: Some(k as u64),
                            hard_kind: kind,
                            ..Default::default()
                        };
                        let op = Op::new("x").fault(sink, f);
                        let (o, _) = write_dictionary(&mut model, Some(&op), &mut ctx);
                        points += 1;
                        if !matches!(o.result, Ok(Err(_))) {
                            let frac = {
                                let mut f = (((k as u128) << 32) / len as u128) as i64;
                                while ((f as u128 * len as u128) >> 32) as usize != k {
                                    f += 1;
                                }
                                f
                            };
                            plan.ops.push(Op::new("GenFault").s(sink).n(&[frac, i64::from(kind)]));
                            rep.extra_failure = Some((
                                plan,
                                Violation::new(
                                    "C14.fault.ok",
                                    format!("write_dictionary did not return Err although the {sink} sink failed at byte {k} of {len}"),
                                ),
                            ));
                            return;
                        }
                    }
                }
            }
        }
        rep.extra_evaluations += points;
        rep.extra_distinct += points;
        rep.extra.insert(
            "enumerated_sink_fault_points".into(),
            crate::json::J::s(&format!("{points} (every byte offset of all four sinks x {{error, device full}} for {done} models)")),
        );
    }
}

// =============================================================================================
// C15

pub struct ModelRoundTripScenario;

struct ModelReplica {
    model: Model,
    generation: u32,
    generated: bool,
}

fn gen_all(m: &mut Model, ctx: &mut Ctx, prefix: &str) -> Result<(DictFiles, BigramFiles), Violation> {
    let gap = rucrf_gap(m);
    let (o, d) = write_dictionary(m, None, ctx);
    must_ok(&format!("{prefix}.dict"), "write_dictionary", o, gap, ctx)?;
    let (o, b) = write_bigram_details(m, None, ctx);
    must_ok(&format!("{prefix}.bigram"), "write_bigram_details", o, gap, ctx)?;
    // triage aid: VSIM_DUMP_DIR=<dir> keeps the emitted files of the last generation (replays only)
    if let Ok(dir) = std::env::var("VSIM_DUMP_DIR") {
        let _ = std::fs::create_dir_all(&dir);
        for (n, x) in [
            ("lex.csv", &d.lex),
            ("matrix.def", &d.matrix),
            ("unk.def", &d.unk),
            ("user.csv", &d.user),
            ("bigram.left", &b.left),
            ("bigram.right", &b.right),
            ("bigram.cost", &b.cost),
        ] {
            let _ = std::fs::write(format!("{dir}/{n}"), x);
        }
    }
    Ok((d, b))
}

fn diff_generated(a: &(DictFiles, BigramFiles), b: &(DictFiles, BigramFiles)) -> Option<String> {
    for (name, x, y) in [
        ("lex.csv", &a.0.lex, &b.0.lex),
        ("matrix.def", &a.0.matrix, &b.0.matrix),
        ("unk.def", &a.0.unk, &b.0.unk),
        ("user lexicon", &a.0.user, &b.0.user),
        ("bigram.left", &a.1.left, &b.1.left),
        ("bigram.right", &a.1.right, &b.1.right),
    ] {
        if x != y {
            let xl = nonempty_lines(x);
            let yl = nonempty_lines(y);
            let i = xl.iter().zip(&yl).position(|(p, q)| p != q).unwrap_or(xl.len().min(yl.len()));
            return Some(format!(
                "{name} differs ({} vs {} lines); first difference at line {i}: {:?} vs {:?}",
                xl.len(),
                yl.len(),
                xl.get(i),
                yl.get(i)
            ));
        }
    }
    let (x, y) = (sorted_lines(&a.1.cost), sorted_lines(&b.1.cost));
    if x != y {
        let only_a: Vec<&String> = x.iter().filter(|l| !y.contains(l)).take(3).collect();
        let only_b: Vec<&String> = y.iter().filter(|l| !x.contains(l)).take(3).collect();
        return Some(format!("bigram.cost line multisets differ: only in first {only_a:?}, only in second {only_b:?}"));
    }
    None
}

impl Scenario for ModelRoundTripScenario {
    fn id(&self) -> &'static str {
        "C15"
    }
    fn runs(&self, tier: Tier) -> u64 {
        match tier {
            Tier::Quick => 3_000,
            Tier::Thorough => 40_000,
        }
    }
    fn plan(&self, rng: &mut Rng, _tier: Tier, seed: u64, run: u64) -> Plan {
        let mut plan = Plan::new("C15", seed, run);
        gen_train_world(rng, &mut plan);
        // phase 1: Gen / RoundTrip in any order
        let n = 2 + rng.usize(6);
        let mut replicas = 1;
        for _ in 0..n {
            match rng.below(8) {
                0..=3 if replicas < 4 => {
                    plan.ops.push(
                        Op::new("RoundTrip")
                            .n(&[rng.usize(replicas) as i64])
                            .fault("sink", gen_benign(rng, 4096))
                            .fault("src", gen_benign(rng, 4096)),
                    );
                    replicas += 1;
                }
                4 => {
                    let kind = *rng.pick(&[0i64, 1, 2]);
                    plan.ops.push(
                        Op::new("FailWrite").n(&[rng.usize(replicas) as i64, rng.range(0, (1 << 32) - 1), kind]),
                    );
                }
                5 => {
                    let kind = *rng.pick(&[0i64, 1, 2, 3]);
                    plan.ops.push(
                        Op::new("FailRead").n(&[rng.usize(replicas) as i64, rng.range(0, (1 << 32) - 1), kind]),
                    );
                }
                _ => plan.ops.push(Op::new("Gen").n(&[rng.usize(replicas) as i64])),
            }
        }
        if rng.chance(1, 2) {
            plan.ops.push(Op::new("GenAll"));
        }
        // phase 2: user lexicon on every replica; phase 3: generate again
        if rng.chance(3, 4) {
            plan.ops.push(Op::new("AddUser"));
            if rng.chance(1, 2) {
                plan.ops.push(Op::new("Gen").n(&[rng.usize(replicas) as i64]));
            }
            plan.ops.push(Op::new("GenAll"));
            plan.ops.push(Op::new("GenAll"));
        } else {
            plan.ops.push(Op::new("GenAll"));
        }
        plan
    }

    fn execute(&self, plan: &Plan, ctx: &mut Ctx) -> Check {
        let Some(model) = train(plan, ctx)? else {
            return Ok(());
        };
        ctx.event("train", "ok");
        let mut replicas = vec![ModelReplica {
            model,
            generation: 0,
            generated: false,
        }];
        let none = Fault::default();
        let mut user_added = false;
        for op in &plan.ops {
            match op.kind.as_str() {
                "RoundTrip" => {
                    let src = (op.num(0) as usize).min(replicas.len() - 1);
                    let fs = op.get_fault("sink");
                    let mut sink = FaultySink::new(&fs);
                    let m = &replicas[src].model;
                    let r = catch(|| m.write_model(&mut sink).map_err(|e| e.to_string()));
                    ctx.fired(&sink.fired);
                    let n = match r {
                        Ok(Ok(n)) => n,
                        Ok(Err(e)) => return Err(Violation::new("C15.write.err", format!("write_model failed under benign faults: {e}"))),
                        Err(p) => return Err(panic_violation("C15.write", "write_model", &p)),
                    };
                    if n != sink.data.len() {
                        return Err(Violation::new("C15.write.count", format!("write_model returned {n}, the sink accepted {} bytes", sink.data.len())));
                    }
                    let fr = op.get_fault("src");
                    let mut rdr = FaultyReader::new(&sink.data, &fr);
                    let r = catch(|| Model::read_model(&mut rdr).map_err(|e| e.to_string()));
                    ctx.fired(&rdr.fired);
                    let m2 = match r {
                        Ok(Ok(m)) => m,
                        Ok(Err(e)) => return Err(Violation::new("C15.read.err", format!("read_model failed on a complete model file under benign faults: {e}"))),
                        Err(p) => return Err(panic_violation("C15.read", "read_model", &p)),
                    };
                    let generation = replicas[src].generation + 1;
                    if generation >= 2 {
                        ctx.count("probe.roundtrip_of_roundtrip");
                    }
                    if replicas[src].generated {
                        ctx.count("probe.roundtrip_after_gen");
                    }
                    replicas.push(ModelReplica {
                        model: m2,
                        generation,
                        generated: false,
                    });
                    ctx.state_changes += 1;
                    ctx.event(&op.brief(), &format!("{n} bytes -> replica #{}", replicas.len() - 1));
                }
                "FailWrite" | "FailRead" => {
                    let src = (op.num(0) as usize).min(replicas.len() - 1);
                    let mut full = FaultySink::new(&none);
                    let m = &replicas[src].model;
                    let _ = catch(|| m.write_model(&mut full));
                    let len = full.data.len().max(1);
                    let k = ((op.num(1) as u128 * len as u128) >> 32) as u64;
                    let f = Fault {
                        hard_at: Some(k.min(len as u64 - 1)),
                        hard_kind: op.num(2) as u8,
                        ..Default::default()
                    };
                    if op.kind == "FailWrite" {
                        let mut sink = FaultySink::new(&f);
                        let r = catch(|| m.write_model(&mut sink).map_err(|e| e.to_string()));
                        ctx.fired(&sink.fired);
                        match r {
                            Ok(Err(_)) => {}
                            Ok(Ok(n)) => return Err(Violation::new("C15.fail_write.ok", format!("write_model returned Ok({n}) although the sink failed at byte {k} of {len}"))),
                            Err(p) => return Err(panic_violation("C15.fail_write", &op.brief(), &p)),
                        }
                    } else {
                        let mut rdr = FaultyReader::new(&full.data, &f);
                        let r = catch(|| Model::read_model(&mut rdr).map(|_| ()).map_err(|e| e.to_string()));
                        ctx.fired(&rdr.fired);
                        match r {
                            Ok(Err(_)) => {}
                            Ok(Ok(())) => return Err(Violation::new("C15.fail_read.ok", format!("read_model returned Ok although the reader failed/ended at byte {k} of {len}"))),
                            Err(p) => return Err(panic_violation("C15.fail_read", &op.brief(), &p)),
                        }
                    }
                    ctx.event(&op.brief(), "Err");
                }
                "Gen" => {
                    let i = (op.num(0) as usize).min(replicas.len() - 1);
                    let a = gen_all(&mut replicas[i].model, ctx, "C15.gen")?;
                    let b = gen_all(&mut replicas[i].model, ctx, "C15.gen")?;
                    replicas[i].generated = true;
                    ctx.observations += 1;
                    if let Some(d) = diff_generated(&a, &b) {
                        return Err(Violation::new("C15.gen_twice", format!("generating twice from replica #{i} gives different files: {d}")));
                    }
                    ctx.event(&op.brief(), "stable");
                }
                "AddUser" => {
                    let warm = replicas.iter().filter(|r| r.model.verif_is_merged_cached()).count();
                    if warm > 0 && warm < replicas.len() {
                        ctx.count("probe.warm_and_cold_caches_at_add_user");
                    }
                    for (i, r) in replicas.iter_mut().enumerate() {
                        let m = &mut r.model;
                        let res = catch(|| m.read_user_lexicon(plan.file("user.csv")).map_err(|e| e.to_string()));
                        match res {
                            Ok(Ok(())) => {}
                            Ok(Err(e)) => return Err(Violation::new("C15.user.err", format!("replica #{i}: valid user lexicon rejected: {e}"))),
                            Err(p) => return Err(panic_violation("C15.user", &format!("read_user_lexicon on replica #{i}"), &p)),
                        }
                    }
                    user_added = true;
                    ctx.state_changes += 1;
                    ctx.event("add user", "all replicas");
                }
                "GenAll" => {
                    let mut first: Option<(DictFiles, BigramFiles)> = None;
                    for i in 0..replicas.len() {
                        let g = gen_all(&mut replicas[i].model, ctx, "C15.gen")?;
                        replicas[i].generated = true;
                        match &first {
                            None => first = Some(g),
                            Some(f) => {
                                if let Some(d) = diff_generated(f, &g) {
                                    return Err(Violation::new(
                                        "C15.diverged",
                                        format!(
                                            "replica #{i} (after {} write_model/read_model round trips{}) generates different files than the in-memory model: {d}",
                                            replicas[i].generation,
                                            if user_added { ", user lexicon added afterwards" } else { "" }
                                        ),
                                    ));
                                }
                            }
                        }
                    }
                    ctx.observations += 1;
                    if user_added && replicas.len() > 1 {
                        ctx.count("probe.compared_after_add_user");
                        let e = replicas[0].model.verif_user_entries();
                        if !e.is_empty() {
                            ctx.count("probe.user_entries_present");
                        }
                    }
                    ctx.event("gen all", &format!("{} replicas identical", replicas.len()));
                }
                other => return Err(Violation::new("C15.plan", format!("unknown op {other}"))),
            }
        }
        Ok(())
    }

    fn describe(&self) -> ScenarioInfo {
        ScenarioInfo {
            level: "exploration",
            rule: "one seeded run = a seeded trainer world trained with the real trainer, then a history: phase 1 any sequence of Gen(replica) (write_dictionary + write_bigram_details twice: must be stable), RoundTrip(replica) (write_model -> short-write/EINTR sink -> short-read/EINTR reader -> read_model, new replica; returned count == bytes accepted), FailWrite/FailRead (hard fault at a seeded offset must give Err); phase 2 read_user_lexicon on every replica; phase 3 GenAll: every replica must emit identical lex/matrix/unk/user/bigram.left/bigram.right bytes and identical bigram.cost line multisets. Replicas with warm and cold merged-model caches coexist. Round 6 (C15 worlds only): 1 world in 10 has a middle category without unk.def rows, 1 in 12 a seed word whose feature has a line break inside a quoted cell. distinct_nontrivial = distinct plan hashes of runs whose training succeeded with >= 1 comparison after >= 1 round trip or user lexicon",
            assumptions: vec![
                "model-file bytes are never compared across replicas (hash-order dependent; not claimed by the property)",
                "round trips after read_user_lexicon are outside the property's quantifier (read_model starts without user entries) and not generated",
            ],
            real: vec!["Model::{write_model,read_model,read_user_lexicon,write_dictionary,write_bigram_details}, TrainerConfig/FeatureExtractor/FeatureRewriter codecs, rucrf::RawModel codec"],
            stub: vec!["model file and output files (FaultySink/FaultyReader over memory)"],
            probes: vec![
                "probe.roundtrip_of_roundtrip",
                "probe.roundtrip_after_gen",
                "probe.warm_and_cold_caches_at_add_user",
                "probe.compared_after_add_user",
                "probe.user_entries_present",
                "fault.short_transfer",
                "fault.interrupted",
                "fault.hard",
            ],
        }
    }
}

// =============================================================================================
// C16

pub struct SmallDicScenario;

pub const KF_STAR: &str = "KF-C16-1";

/// Predicate of known finding KF-C16-1: bigram.cost lists a feature string that is exactly "*".
fn has_literal_star_feature(cost: &[u8]) -> bool {
    String::from_utf8_lossy(cost).lines().any(|l| {
        let pair = l.split('\t').next().unwrap_or("");
        match pair.split_once('/') {
            Some((a, b)) => a == "*" || b == "*",
            None => false,
        }
    })
}

impl Scenario for SmallDicScenario {
    fn id(&self) -> &'static str {
        "C16"
    }
    fn runs(&self, tier: Tier) -> u64 {
        match tier {
            Tier::Quick => 3_000,
            Tier::Thorough => 40_000,
        }
    }
    fn plan(&self, rng: &mut Rng, _tier: Tier, seed: u64, run: u64) -> Plan {
        let mut plan = Plan::new("C16", seed, run);
        if rng.chance(1, 30) {
            gen_big_train_world(rng, &mut plan);
        } else {
            gen_train_world(rng, &mut plan);
        }
        // a user lexicon before generating: its words (also words with features never seen in
        // training) get classes of their own in matrix.def and in the bigram files
        if rng.chance(1, 3) {
            if rng.chance(1, 2) {
                plan.ops.push(Op::new("Gen")); // an export before the user lexicon arrives
            }
            plan.ops.push(Op::new("AddUser"));
        }
        // the two groups of files are written in either order
        plan.ops.push(Op::new(if rng.chance(1, 3) { "GenReverse" } else { "Gen" }));
        plan.ops.push(
            Op::new("GenBenign")
                .fault("bigram.left", gen_benign(rng, 512))
                .fault("bigram.right", gen_benign(rng, 512))
                .fault("bigram.cost", gen_benign(rng, 512)),
        );
        let n = 3 + rng.usize(8);
        plan_sink_faults(rng, &mut plan, "GenFault", BIGRAM_SINKS, n);
        let mut c = Op::new("Compile").n(&[(rng.next_u64() >> 2) as i64, (rng.next_u64() >> 2) as i64]);
        for f in ["lex.csv", "matrix.def", "unk.def", "char.def", "bigram.left", "bigram.right", "bigram.cost"] {
            if rng.chance(1, 3) {
                c = c.fault(f, gen_benign(rng, 512));
            }
        }
        plan.ops.push(c);
        if rng.chance(1, 4) {
            let f = gen_hard(rng, 256, &[0, 1, 3]);
            let name = *rng.pick(&["bigram.left", "bigram.right", "bigram.cost"]);
            plan.ops.push(Op::new("CompileFail").s(name).fault(name, f));
        }
        plan
    }

    fn execute(&self, plan: &Plan, ctx: &mut Ctx) -> Check {
        let Some(mut model) = train(plan, ctx)? else {
            return Ok(());
        };
        ctx.state_changes += 1;
        // K = number of bigram templates, read from the plan's feature.def itself
        let k_templates = plan
            .file_str("feature.def")
            .lines()
            .filter(|l| l.trim().starts_with("BIGRAM "))
            .count() as i64;
        let mut generated: Option<(DictFiles, BigramFiles)> = None;
        for op in &plan.ops {
            match op.kind.as_str() {
                "AddUser" => {
                    // (a model without any bigram weight cannot merge a user lexicon: KF-RUCRF-1,
                    // recorded under C14/C15; not this property's subject)
                    if model.verif_raw_model().bigram_weight_indices().is_empty() {
                        ctx.count("adduser.skipped_no_bigram_weight");
                        continue;
                    }
                    match catch(|| model.read_user_lexicon(plan.file("user.csv")).map_err(|e| e.to_string())) {
                        Ok(Ok(())) => {
                            ctx.count("probe.user_lexicon_before_generation");
                            ctx.event("add user", "ok");
                        }
                        Ok(Err(e)) => return Err(Violation::new("C16.user.rejected", format!("valid user lexicon rejected: {e}"))),
                        Err(p) => return Err(panic_violation("C16.user", "read_user_lexicon", &p)),
                    }
                }
                "GenReverse" => {
                    // write_bigram_details before write_dictionary
                    let gap = rucrf_gap(&model);
                    let (o, b) = write_bigram_details(&mut model, None, ctx);
                    must_ok("C16.gen.bigram", "write_bigram_details", o, gap, ctx)?;
                    let (o, d) = write_dictionary(&mut model, None, ctx);
                    must_ok("C16.gen.dict", "write_dictionary", o, gap, ctx)?;
                    generated = Some((d, b));
                    ctx.count("probe.bigram_details_before_dictionary");
                    ctx.event("gen (bigram files first)", "ok");
                }
                "Gen" => {
                    generated = Some(gen_all(&mut model, ctx, "C16.gen")?);
                    if generated.as_ref().is_some_and(|g| g.1.cost.len() > 8192) {
                        ctx.count("probe.bigram_cost_over_8k");
                    }
                    ctx.event("gen", "ok");
                }
                "GenBenign" => {
                    let Some((_, b)) = generated.as_ref() else { continue };
                    let (o, files) = write_bigram_details(&mut model, Some(op), ctx);
                    must_ok("C16.gen_benign", "write_bigram_details through short writes/EINTR", o, rucrf_gap(&model), ctx)?;
                    if files.left != b.left || files.right != b.right || sorted_lines(&files.cost) != sorted_lines(&b.cost) {
                        return Err(Violation::new("C16.benign.bytes", "bigram files written through short-write/EINTR sinks differ from the plain ones"));
                    }
                    ctx.observations += 1;
                }
                "GenFault" => {
                    let Some((_, b)) = generated.as_ref() else { continue };
                    let sink = op.str(0);
                    if !BIGRAM_SINKS.contains(&sink) {
                        continue;
                    }
                    let len = bigram_len(b, sink);
                    if len == 0 {
                        continue;
                    }
                    let k = ((op.num(0) as u128 * len as u128) >> 32) as u64;
                    let mut op2 = op.clone();
                    let mut f = op.get_fault(sink);
                    f.hard_at = Some(k.min(len as u64 - 1));
                    f.hard_kind = op.num(1) as u8;
                    op2.faults.insert(sink.to_string(), f);
                    let (o, files) = write_bigram_details(&mut model, Some(&op2), ctx);
                    ctx.observations += 1;
                    match o.result {
                        Ok(Err(_)) => ctx.event(&op.brief(), "Err"),
                        Ok(Ok(())) => {
                            return Err(Violation::new(
                                "C16.fault.ok",
                                format!(
                                    "write_bigram_details returned Ok although the {sink} sink failed at byte {k} of {len}: {} of {len} bytes reached it",
                                    bigram_len(&files, sink)
                                ),
                            ))
                        }
                        Err(p) => return Err(panic_violation("C16.fault", &op.brief(), &p)),
                    }
                }
                "Compile" => {
                    let Some((d, b)) = generated.as_ref() else { continue };
                    let files = dict_file_map(d, Some(b));
                    let dm = compile_emitted("C16.matrix", plan, &files, CONN_MATRIX, 0, Some(op), ctx)?;
                    let dr = compile_emitted("C16.raw", plan, &files, CONN_RAW, 0, Some(op), ctx)?;
                    let dd1 = compile_emitted("C16.dual", plan, &files, CONN_DUAL, op.num(0) as u64, Some(op), ctx)?;
                    let dd2 = compile_emitted("C16.dual", plan, &files, CONN_DUAL, op.num(1) as u64, Some(op), ctx)?;
                    let (nl, nr) = (dm.verif_num_left(), dm.verif_num_right());
                    for (name, d) in [("raw", &dr), ("dual", &dd1), ("dual", &dd2)] {
                        if d.verif_num_left() != nl || d.verif_num_right() != nr {
                            return Err(Violation::new(
                                "C16.dims",
                                format!(
                                    "the {name} dictionary has {}x{} connection ids, matrix.def {}x{}",
                                    d.verif_num_right(),
                                    d.verif_num_left(),
                                    nr,
                                    nl
                                ),
                            ));
                        }
                    }
                    // ids used by the emitted lexicon/unk lie inside (the compile verified it); now
                    // every id pair incl. 0
                    let bound = k_templates + 1;
                    // the dual connector clamps its pre-summed part to 16 bits (C07: "the same value
                    // whenever the pre-summed part fits in 16 bits"): whatever subset of templates is
                    // pre-summed, its sum lies between the sum of the negative and the sum of the
                    // positive per-template costs of the pair; dual == raw is required when both fit
                    let reference = crate::scen_bigram::parse_bigram(
                        &String::from_utf8_lossy(&b.right),
                        &String::from_utf8_lossy(&b.left),
                        &String::from_utf8_lossy(&b.cost),
                    )
                    .filter(|m| m.num_right() == nr && m.num_left() == nl);

                    let mut presum_may_overflow = 0u64;
                    let r = catch(|| {
                        let mut worst = (0i64, 0usize, 0usize);
                        for r in 0..nr {
                            for l in 0..nl {
                                let cm = i64::from(dm.verif_conn_cost(r as u16, l as u16));
                                let cr = i64::from(dr.verif_conn_cost(r as u16, l as u16));
                                let c1 = i64::from(dd1.verif_conn_cost(r as u16, l as u16));
                                let c2 = i64::from(dd2.verif_conn_cost(r as u16, l as u16));
                                let fits = reference.as_ref().map_or(true, |m| {
                                    let (neg, pos) = m.signed_sums(r, l);
                                    neg >= i64::from(i16::MIN) && pos <= i64::from(i16::MAX)
                                });
                                if !fits {
                                    presum_may_overflow += 1;
                                } else if c1 != cr || c2 != cr {
                                    return Err(format!("dual connector cost(right={r}, left={l}) = {c1}/{c2}, raw connector {cr}"));
                                }
                                if (cr - cm).abs() > worst.0 {
                                    worst = ((cr - cm).abs(), r, l);
                                }
                            }
                        }
                        Ok(worst)
                    })
                    .map_err(|p| panic_violation("C16.cost", "connection-cost lookups", &p))?;
                    ctx.observations += 1;
                    if presum_may_overflow > 0 {
                        ctx.count("probe.pair_whose_presum_may_exceed_16_bits");
                    }
                    match r {
                        Err(e) => return Err(Violation::new("C16.dual_vs_raw", e)),
                        Ok((diff, r, l)) => {
                            if diff > bound && has_literal_star_feature(&b.cost) {
                                ctx.known_finding(
                                    KF_STAR,
                                    &format!(
                                        "a bigram feature expands to a literal \"*\", which bigram.left/right cannot tell from the no-feature marker: cost(right={r}, left={l}) from the bigram files {}, matrix.def {}",
                                        dr.verif_conn_cost(r as u16, l as u16),
                                        dm.verif_conn_cost(r as u16, l as u16)
                                    ),
                                )?;
                                continue;
                            }
                            if diff > bound {
                                return Err(Violation::new(
                                    "C16.rounding_bound",
                                    format!(
                                        "cost(right={r}, left={l}): bigram files give {}, matrix.def {} - differs by {diff} > K+1 = {bound}",
                                        dr.verif_conn_cost(r as u16, l as u16),
                                        dm.verif_conn_cost(r as u16, l as u16)
                                    ),
                                ));
                            }
                            if diff > 0 {
                                ctx.count("probe.nonzero_rounding_difference");
                            }
                            ctx.event("compile", &format!("{nr}x{nl} ids, max |raw-matrix| = {diff} <= {bound}"));
                        }
                    }
                    if nr >= 3 && nl >= 3 {
                        ctx.count("probe.at_least_2_classes_per_side");
                    }
                }
                "CompileFail" => {
                    let Some((d, b)) = generated.as_ref() else { continue };
                    let files = dict_file_map(d, Some(b));
                    let mut f = files.clone();
                    f.insert("char.def".into(), plan.file("char.def").to_vec());
                    let before = ctx.counters.get("fault.hard").copied().unwrap_or(0);
                    match build_dict(&f, CONN_RAW, 0, Some(op), ctx) {
                        Ok(Ok(_)) => {
                            if ctx.counters.get("fault.hard").copied().unwrap_or(0) > before {
                                return Err(Violation::new("C16.read_error_swallowed", format!("the builder returned Ok although reading {} failed", op.str(0))));
                            }
                        }
                        Ok(Err(_)) => {}
                        Err(p) => return Err(panic_violation("C16.compile_fail", "compiling with a failing reader", &p)),
                    }
                }
                other => return Err(Violation::new("C16.plan", format!("unknown op {other}"))),
            }
        }
        Ok(())
    }

    fn describe(&self) -> ScenarioInfo {
        ScenarioInfo {
            level: "exploration",
            rule: "one seeded run = a seeded trainer world trained with the real trainer; write_dictionary + write_bigram_details onto the simulated disk (fault-free; through short-write/EINTR sinks: identical; with a hard fault at a seeded offset of one of the three bigram sinks: must return Err); the emitted files are read back through benign-faulty readers and compiled three ways - matrix.def, raw connector, dual connector under two seeded template splits (hook H5). For every id pair incl. id 0: dual == raw, |raw - matrix| <= K+1 (K = number of bigram templates), and all dictionaries have the same numbers of left and right ids. Added later: 1 run in 3 reads the user lexicon before generating (classes of user words, also of words with features never seen in training, are compared like all others); dual == raw is required where the negative and positive per-template costs of the pair each fit 16 bits; 1 world in 10 has 10-15 templates. Round 5: an export may precede the user lexicon, and 1 run in 3 writes the bigram files before the dictionary files. distinct_nontrivial = distinct plan hashes of runs whose training succeeded with >= 1 comparison",
            assumptions: vec![
                "feature values contain no '/' or tab (they would not survive the bigram.cost line format)",
                "worlds whose training fails or panics inside rucrf/argmin are skipped (counted)",
            ],
            real: vec!["Trainer, Model::{write_dictionary,write_bigram_details}, SystemDictionaryBuilder::{from_readers,from_readers_with_bigram_info}, Raw/Dual/Matrix connectors"],
            stub: vec!["all files (FaultySink/FaultyReader over memory)", "hash order of the dual-connector split (hook H5)"],
            probes: vec![
                "probe.nonzero_rounding_difference",
                "probe.user_lexicon_before_generation",
                "probe.bigram_details_before_dictionary",
                "probe.at_least_2_classes_per_side",
                "probe.bigram_cost_over_8k",
                "fault.short_transfer",
                "fault.interrupted",
                "fault.hard",
            ],
        }
    }
}
