//! C10 — dictionary builders are total and acceptance implies safe use.
//! Storage-fault injection into the definition-file streams: the plan holds the (seeded)
//! corrupted files explicitly; stream-level faults (short reads, EINTR, mid-stream I/O errors) are
//! added per file. Oracle: every builder call returns Ok or Err, never panics; an accepted
//! dictionary tokenizes every probe without panic, reports only ids inside the connector, and
//! (while char.def stays inside a strict reference grammar) assigns categories exactly as a
//! 40-line reference interpreter does.

use std::collections::BTreeMap;

use vibrato::Dictionary;

use crate::core::{catch, panic_violation, Check, Ctx, Scenario, ScenarioInfo, Tier, Violation};
use crate::corrupt::{
    corrupt_bigram, corrupt_char_def, corrupt_generic, corrupt_lex_csv, corrupt_matrix_def,
    matrix_too_big,
};
use crate::dictops::{load_user, map_ids};
use crate::io::{gen_benign, gen_hard};
use crate::obs::{build_dict, has_space, make_tokenizer, option_sets, read_tokens};
use crate::plan::{Op, Plan};
use crate::rng::Rng;
use crate::world::{
    gen_perm, gen_sentence, gen_user_csv, gen_world, join_ids, parse_ids, WorldCfg, ALPHABET,
    CONN_MATRIX,
};

pub struct BuildScenario;

pub const KF_UNK: &str = "KF-C10-1";

// ---------------------------------------------------------------------------------------------
// reference interpreter of char.def (strict grammar; None = outside the grammar)

#[derive(Clone, Debug, PartialEq, Eq)]
struct RefCat {
    id: u32,
    invoke: bool,
    group: bool,
    length: u16,
}

struct RefCharDef {
    cats: BTreeMap<String, RefCat>,
    /// (lo, hi inclusive, category names)
    ranges: Vec<(u32, u32, Vec<String>)>,
}

fn parse_hex_strict(t: &str) -> Option<u32> {
    let h = t.strip_prefix("0x")?;
    if h.is_empty() || h.len() > 5 || !h.bytes().all(|b| b.is_ascii_hexdigit()) {
        return None;
    }
    u32::from_str_radix(h, 16).ok()
}

fn reference_char_def(text: &str) -> Option<RefCharDef> {
    let mut cats: BTreeMap<String, RefCat> = BTreeMap::new();
    let mut next_id = 1u32;
    let mut ranges = vec![];
    for raw in text.lines() {
        // the strict grammar knows only ASCII blanks
        if !raw.is_ascii() && raw.chars().any(|c| c.is_whitespace() && c != ' ' && c != '\t') {
            return None;
        }
        let line = raw.trim();
        if line.is_empty() || line.starts_with('#') {
            continue;
        }
        let cols: Vec<&str> = line.split_whitespace().collect();
        if line.starts_with("0x") {
            let (lo, hi) = match cols[0].split_once("..") {
                Some((a, b)) => (parse_hex_strict(a)?, parse_hex_strict(b)?),
                None => {
                    let v = parse_hex_strict(cols[0])?;
                    (v, v)
                }
            };
            if lo > hi || hi > 0xFFFF {
                return None;
            }
            let mut names = vec![];
            for c in &cols[1..] {
                if c.starts_with('#') {
                    break;
                }
                names.push(c.to_string());
            }
            if names.is_empty() {
                return None;
            }
            ranges.push((lo, hi, names));
        } else {
            if cols.len() != 4 {
                return None;
            }
            let invoke = match cols[1] {
                "0" => false,
                "1" => true,
                _ => return None,
            };
            let group = match cols[2] {
                "0" => false,
                "1" => true,
                _ => return None,
            };
            if cols[3].is_empty() || !cols[3].bytes().all(|b| b.is_ascii_digit()) || cols[3].len() > 2 {
                return None;
            }
            let length: u16 = cols[3].parse().ok()?;
            if length > 15 {
                return None;
            }
            let name = cols[0].to_string();
            let id = if name == "DEFAULT" {
                0
            } else if let Some(c) = cats.get(&name) {
                c.id
            } else {
                let id = next_id;
                next_id += 1;
                id
            };
            cats.insert(name, RefCat { id, invoke, group, length });
        }
    }
    if !cats.contains_key("DEFAULT") {
        return None;
    }
    for (_, _, names) in &ranges {
        if names.iter().any(|n| !cats.contains_key(n)) {
            return None;
        }
    }
    Some(RefCharDef { cats, ranges })
}

/// Category names indexed by category id, per the reference interpretation of char.def.
pub fn category_order(char_def: &str) -> Option<Vec<String>> {
    let rc = reference_char_def(char_def)?;
    let mut v = vec![String::new(); rc.cats.len()];
    for (n, c) in &rc.cats {
        *v.get_mut(c.id as usize)? = n.clone();
    }
    Some(v)
}

/// Primary category id of a BMP character per the reference interpretation of char.def.
pub fn primary_category(char_def: &str, c: char) -> Option<u32> {
    let rc = reference_char_def(char_def)?;
    let cp = u32::from(c);
    if cp > 0xFFFF {
        // characters outside the table share the entry of U+0000
        return rc.info(0).map(|i| i.1);
    }
    rc.info(cp).map(|i| i.1)
}

impl RefCharDef {
    /// (cate_idset, base_id, invoke, group, length) of a BMP code point; None when one of its
    /// categories has an id the packed 18-bit category set cannot represent (an accepted
    /// dictionary has then necessarily mis-assigned it).
    fn info(&self, cp: u32) -> Option<(u32, u32, bool, bool, u16)> {
        let mut names: Vec<String> = vec!["DEFAULT".to_string()];
        for (lo, hi, n) in &self.ranges {
            if *lo <= cp && cp <= *hi {
                names = n.clone();
            }
        }
        let base = &self.cats[&names[0]];
        let mut set = 0u32;
        for n in &names {
            if self.cats[n].id >= 18 {
                return None;
            }
            set |= 1 << self.cats[n].id;
        }
        Some((set, base.id, base.invoke, base.group, base.length))
    }
}

// ---------------------------------------------------------------------------------------------

fn sample_points(char_def: &str) -> Vec<u32> {
    let mut pts = vec![0u32, 1, 0x20, 0x61, 0x3042, 0x4EAC, 0xFFFF, 0xFFFE, 0x3000];
    for tok in char_def.split_whitespace() {
        if let Some(rest) = tok.strip_prefix("0x") {
            for part in rest.split("..") {
                let h = part.trim_start_matches("0x");
                if let Ok(v) = u32::from_str_radix(h, 16) {
                    for d in [v.wrapping_sub(1), v, v.wrapping_add(1)] {
                        if d <= 0xFFFF {
                            pts.push(d);
                        }
                    }
                }
            }
        }
    }
    pts.sort_unstable();
    pts.dedup();
    pts.truncate(200);
    pts
}

fn probe_sentences(plan: &Plan, char_def: &str) -> Vec<String> {
    let mut v: Vec<String> = plan
        .file_str("probes")
        .split('\n')
        .map(|s| s.to_string())
        .collect();
    // every alphabet character alone and all of them together
    let all: String = ALPHABET.iter().collect();
    v.push(all);
    for &c in ALPHABET {
        v.push(c.to_string());
    }
    // characters at and around every range end of the (corrupted) char.def
    let mut s = String::new();
    for cp in sample_points(char_def) {
        if let Some(c) = char::from_u32(cp) {
            s.push(c);
            if s.chars().count() >= 12 {
                v.push(std::mem::take(&mut s));
            }
        }
    }
    if !s.is_empty() {
        v.push(s);
    }
    v.truncate(80);
    v
}

/// Tokenizes every probe under every option set; classifies a panic as the known finding when its
/// precise predicate holds.
/// Lazily built "repaired replica" used to confirm known finding KF-C10-1 causally: the same
/// (effective) files plus one unk.def row for every category that has none, taken through the same
/// follow-up operations. If the sentence that panicked tokenizes fine there, the missing unk.def
/// entries are the cause; if it still panics, it is a different defect and is reported.
struct Repair<'a> {
    plan: &'a Plan,
    /// follow-up operations (after Build) applied so far
    stage: usize,
    built: Option<(usize, Option<Dictionary>)>,
    /// Outcome of the dead-end model (third part of the KF-C10-1 predicate) for the last sentence
    /// that tokenized on the repaired replica without `ignore_space` - `Some(true)` iff, after
    /// dropping the nodes that exist only because of the added unk.def rows, some position
    /// reachable from 0 before the end has no outgoing node (DESIGN section 9).
    last_dead_end: Option<bool>,
}

/// Dead-end model of the accepted dictionary computed from the repaired replica's lattice.
fn dead_end_model(accepted: &Dictionary, s: &str, nodes: &[vibrato::tokenizer::worker::VerifNode]) -> bool {
    let chars: Vec<char> = s.chars().collect();
    let n = chars.len();
    let mut reach = vec![false; n + 1];
    let mut out = vec![false; n + 1];
    reach[0] = true;
    let mut kept: Vec<(usize, usize)> = vec![];
    for nd in nodes {
        if nd.end == 0 || nd.start_word >= n || nd.end > n {
            continue;
        }
        if nd.lex_type == vibrato::dictionary::LexType::Unknown {
            let (_, base, ..) = accepted.verif_char_info(chars[nd.start_word]);
            if accepted.verif_unk_rows(base) == 0 {
                continue; // exists only because of an added row
            }
        }
        kept.push((nd.start_node, nd.end));
    }
    kept.sort();
    for &(a, b) in &kept {
        if reach[a] {
            reach[b] = true;
            out[a] = true;
        }
    }
    (0..n).any(|p| reach[p] && !out[p])
}

impl Repair<'_> {
    fn effective(&self, name: &str, op: Option<&Op>) -> Vec<u8> {
        let mut v = self.plan.file(name).to_vec();
        if let Some(f) = op.and_then(|o| o.faults.get(name)) {
            if let (Some(k), 2) = (f.hard_at, f.hard_kind) {
                v.truncate(k as usize);
            }
        }
        v
    }
    fn dictionary(&mut self, accepted: &Dictionary) -> Option<Dictionary> {
        if let Some((st, d)) = self.built.take() {
            if st == self.stage {
                return d;
            }
        }
        let plan = self.plan;
        let build_op = plan.ops.iter().find(|o| o.kind == "Build");
        let mut files = std::collections::BTreeMap::new();
        for name in plan.files.keys() {
            files.insert(name.clone(), self.effective(name, build_op));
        }
        let names = accepted.verif_category_names();
        // the added rows come first: the (possibly torn) original may end inside a quoted field
        let mut unk: Vec<u8> = vec![];
        for (id, n) in names.iter().enumerate() {
            if accepted.verif_unk_rows(id as u32) == 0 {
                unk.extend_from_slice(format!("{},0,0,0,REPAIRED\n", crate::world::csv_quote(n)).as_bytes());
            }
        }
        unk.extend_from_slice(files.get("unk.def").map(|v| v.as_slice()).unwrap_or(&[]));
        files.insert("unk.def".to_string(), unk);
        let mut scratch = Ctx::new(false);
        let mut d = match build_dict(&files, plan.param("conn"), plan.param("order_seed") as u64, None, &mut scratch) {
            Ok(Ok(d)) => d,
            _ => return None,
        };
        let none = crate::plan::Fault::default();
        for op in plan.ops.iter().filter(|o| o.kind != "Build").take(self.stage) {
            d = match op.kind.as_str() {
                "LoadUser" => {
                    let csv = self.effective("user.csv", Some(op));
                    match load_user(d, &csv, &none, &mut scratch) {
                        Ok(Ok(d)) => d,
                        _ => return None,
                    }
                }
                "Map" => match map_ids(d, &parse_ids(op.str(0)), &parse_ids(op.str(1))) {
                    Ok(Ok(d)) => d,
                    _ => return None,
                },
                _ => d,
            };
        }
        Some(d)
    }
    /// True iff `s` tokenizes without panic on the repaired replica under the option set `o`.
    fn tokenizes_when_repaired(&mut self, accepted: &Dictionary, o: crate::obs::OptSet, s: &str) -> bool {
        let Some(d) = self.dictionary(accepted) else {
            self.built = Some((self.stage, None));
            return false;
        };
        if o.ignore_space && !has_space(&d) {
            self.built = Some((self.stage, Some(d)));
            return false;
        }
        let t = make_tokenizer(d, o);
        let r = catch(|| {
            let mut w = t.new_worker();
            w.reset_sentence(s);
            w.tokenize();
            w.verif_lattice().0
        });
        self.last_dead_end = match (&r, o.ignore_space) {
            (Ok(nodes), false) => Some(dead_end_model(accepted, s, nodes)),
            _ => None,
        };
        let ok = r.is_ok();
        self.built = Some((self.stage, Some(t.verif_into_dictionary())));
        ok
    }
}

/// Tokenizes every probe under every option set; classifies a panic as the known finding when its
/// precise predicate holds.
fn check_safe_use(
    dict: Dictionary,
    probes: &[String],
    stage: &str,
    ctx: &mut Ctx,
    repair: &mut Repair,
) -> Result<Dictionary, Violation> {
    let nl = dict.verif_num_left();
    let nr = dict.verif_num_right();
    let mut dict = dict;
    for o in option_sets(has_space(&dict)) {
        let tokenizer = make_tokenizer(dict, o);
        for s in probes {
            let r = catch(|| {
                let mut w = tokenizer.new_worker();
                w.reset_sentence(s);
                w.tokenize();
                let toks = read_tokens(&w);
                let mut prev_right = 0u16;
                for t in &toks {
                    // the lookup the tokenizer performed must be in range and must not panic
                    if usize::from(t.left) < nl && usize::from(prev_right) < nr {
                        let _ = tokenizer.dictionary().verif_conn_cost(prev_right, t.left);
                    }
                    prev_right = t.right;
                }
                toks
            });
            match r {
                Ok(toks) => {
                    ctx.observations += 1;
                    for t in &toks {
                        if usize::from(t.left) >= nl || usize::from(t.right) >= nr {
                            return Err(Violation::new(
                                "C10.ids_out_of_range",
                                format!(
                                    "{stage}: accepted dictionary reports token {} with ids outside the connector ({nr}x{nl})",
                                    t.brief()
                                ),
                            ));
                        }
                    }
                }
                Err(p) => {
                    if is_known_unk_gap(tokenizer.dictionary(), s)
                        && repair.tokenizes_when_repaired(tokenizer.dictionary(), o, s)
                    {
                        match repair.last_dead_end {
                            Some(true) => ctx.count("kfmodel.dead_end"),
                            None => ctx.count("kfmodel.not_evaluated"),
                            Some(false) => {
                                // the unchanged tree panics only where a reachable position has no
                                // outgoing node (measured: 0 exceptions in > 1.2 M classified panics
                                // under seeds 1-3); a panic without such a dead end is another defect
                                return Err(panic_violation(
                                    "C10.tokenize",
                                    &format!("{stage}: tokenizing {s:?} with an accepted dictionary that has a category without unk.def entries, although every position reachable from the sentence start has a candidate word (not known finding KF-C10-1; ignore_space={}, max_grouping_len={})", o.ignore_space, o.max_grouping_len),
                                    &p,
                                ));
                            }
                        }
                        ctx.known_finding(
                            KF_UNK,
                            &format!(
                                "{stage}: accepted dictionary has a category without unk.def entries; tokenizing {s:?} panics: {}",
                                p.brief()
                            ),
                        )?;
                        continue;
                    }
                    return Err(panic_violation(
                        "C10.tokenize",
                        &format!("{stage}: tokenizing {s:?} with an accepted dictionary (ignore_space={}, max_grouping_len={})", o.ignore_space, o.max_grouping_len),
                        &p,
                    ));
                }
            }
        }
        dict = tokenizer.verif_into_dictionary();
    }
    Ok(dict)
}

/// Predicate of known finding KF-C10-1, structural part: some character of the sentence belongs
/// (as primary category) to a category that has no unk.def entry. The causal part — the same
/// sentence tokenizes without panic once every such category is given an entry — is checked on the
/// repaired replica (`Repair`); together they do not depend on where or how the panic surfaces.
fn is_known_unk_gap(dict: &Dictionary, s: &str) -> bool {
    s.chars().any(|c| {
        let (_, base, ..) = dict.verif_char_info(c);
        dict.verif_unk_rows(base) == 0
    })
}

const FILES_MATRIX: &[&str] = &["lex.csv", "matrix.def", "char.def", "unk.def"];
const FILES_BIGRAM: &[&str] = &["lex.csv", "bigram.right", "bigram.left", "bigram.cost", "char.def", "unk.def"];

impl Scenario for BuildScenario {
    fn id(&self) -> &'static str {
        "C10"
    }
    fn runs(&self, tier: Tier) -> u64 {
        match tier {
            Tier::Quick => 400_000,
            Tier::Thorough => 12_000_000,
        }
    }
    fn plan(&self, rng: &mut Rng, _tier: Tier, seed: u64, run: u64) -> Plan {
        let mut plan = Plan::new("C10", seed, run);
        let info = gen_world(rng, &mut plan, &WorldCfg::default());
        let mut probes = vec![];
        for _ in 0..4 {
            probes.push(gen_sentence(rng, &info.surfaces));
        }
        plan.set_file("probes", probes.join("\n"));
        plan.set_file("user.csv", gen_user_csv(&mut rng.fork(), &info, "U"));
        let files: &[&str] = if info.conn == CONN_MATRIX { FILES_MATRIX } else { FILES_BIGRAM };
        // 0-3 storage faults on one or two files (0: the fault-free configuration)
        let n_faults = match rng.below(10) {
            0 => 0,
            1..=5 => 1,
            6..=8 => 2,
            _ => 3,
        };
        let mut labels = vec![];
        let primary = *rng.pick(files);
        for k in 0..n_faults {
            let name = if k == 0 || rng.chance(2, 3) { primary } else { *rng.pick(files) };
            let data = plan.file(name).to_vec();
            let structured = rng.chance(1, 2);
            let (out, label) = match name {
                "char.def" if structured => corrupt_char_def(rng, &data),
                "matrix.def" if structured => corrupt_matrix_def(rng, &data),
                "lex.csv" | "unk.def" if structured => corrupt_lex_csv(rng, &data, info.num_left, info.num_right),
                n if n.starts_with("bigram") && structured => corrupt_bigram(rng, n, &data),
                "char.def" | "matrix.def" => corrupt_generic(rng, &data, b' '),
                "bigram.right" | "bigram.left" | "bigram.cost" => {
                    let sep = *rng.pick(&[b'\t', b',', b'/']);
                    corrupt_generic(rng, &data, sep)
                }
                _ => corrupt_generic(rng, &data, b','),
            };
            if name == "matrix.def" && matrix_too_big(&out) {
                continue;
            }
            plan.set_file(name, out);
            labels.push(format!("{name}: {label}"));
        }
        // a category without unk rows (the known-finding shape) now and then
        if rng.chance(1, 40) {
            let unk = plan.file_str("unk.def");
            let victim = rng.pick(&info.categories).clone();
            let kept: Vec<&str> = unk.lines().filter(|l| !l.starts_with(&format!("{victim},"))).collect();
            plan.set_file("unk.def", kept.join("\n") + "\n");
            labels.push(format!("unk.def: all rows of {victim} lost"));
        }
        plan.set_file("faults", labels.join("\n"));
        // build, with stream-level faults on some files
        let mut build = Op::new("Build");
        for f in files {
            match rng.below(12) {
                0 | 1 => build = build.fault(f, gen_benign(rng, plan.file(f).len())),
                2 => build = build.fault(f, gen_hard(rng, plan.file(f).len(), &[0, 1, 2, 3])),
                _ => {}
            }
        }
        plan.ops.push(build);
        // follow-up operations on an accepted dictionary
        if rng.chance(1, 2) {
            let mut op = Op::new("LoadUser");
            if rng.chance(1, 2) {
                let data = plan.file("user.csv").to_vec();
                let (out, label) = if rng.chance(1, 2) {
                    corrupt_lex_csv(rng, &data, info.num_left, info.num_right)
                } else {
                    corrupt_generic(rng, &data, b',')
                };
                plan.set_file("user.csv", out);
                op = op.s(label);
            }
            if rng.chance(1, 6) {
                op = op.fault("user.csv", gen_hard(rng, plan.file("user.csv").len(), &[0, 1, 3]));
            }
            plan.ops.push(op);
        }
        if rng.chance(1, 3) {
            let mut l = gen_perm(rng, info.num_left);
            let mut r = gen_perm(rng, info.num_right);
            if rng.chance(1, 2) {
                let t = if rng.chance(1, 2) { &mut l } else { &mut r };
                match rng.below(5) {
                    0 => t.push(0),
                    1 => {
                        t.pop();
                    }
                    2 => t.push(t.len() as u16 + 1),
                    3 if !t.is_empty() => t[0] = 60000,
                    _ => t.clear(),
                }
            }
            plan.ops.push(Op::new("Map").s(&join_ids(&l)).s(&join_ids(&r)));
        }
        plan
    }

    fn execute(&self, plan: &Plan, ctx: &mut Ctx) -> Check {
        let conn = plan.param("conn");
        let order_seed = plan.param("order_seed") as u64;
        // what the builder can actually see of char.def: a premature-EOF fault truncates it
        let mut char_def_bytes = plan.file("char.def").to_vec();
        if let Some(f) = plan.ops.iter().find(|o| o.kind == "Build").and_then(|o| o.faults.get("char.def")) {
            if let (Some(k), 2) = (f.hard_at, f.hard_kind) {
                char_def_bytes.truncate(k as usize);
            }
        }
        let char_def = String::from_utf8_lossy(&char_def_bytes).into_owned();
        let probes = probe_sentences(plan, &char_def);
        let corrupted = !plan.file("faults").is_empty();
        let mut dict: Option<Dictionary> = None;
        let mut repair = Repair {
            plan,
            stage: 0,
            built: None,
            last_dead_end: None,
        };
        for op in &plan.ops {
            match op.kind.as_str() {
                "Build" => {
                    ctx.count("op.build");
                    let hard = op.has_hard_fault();
                    let before_hard = ctx.counters.get("fault.hard").copied().unwrap_or(0);
                    match build_dict(&plan.files, conn, order_seed, Some(op), ctx) {
                        Err(p) => {
                            return Err(panic_violation(
                                "C10.build",
                                &format!("builder panicked (faults: {})", plan.file_str("faults").replace('\n', "; ")),
                                &p,
                            ))
                        }
                        Ok(Err(e)) => {
                            if !corrupted && !hard {
                                return Err(Violation::new(
                                    "C10.valid_rejected",
                                    format!("a valid world with only benign stream faults was rejected: {e}"),
                                ));
                            }
                            ctx.count("probe.rejected");
                            ctx.event("build", &format!("Err({})", e.chars().take(80).collect::<String>()));
                            return Ok(());
                        }
                        Ok(Ok(d)) => {
                            let fired_hard = ctx.counters.get("fault.hard").copied().unwrap_or(0) > before_hard;
                            if fired_hard {
                                // a hard read error that fired must not be swallowed
                                return Err(Violation::new(
                                    "C10.io_error_swallowed",
                                    "a reader returned a hard I/O error while the builder was reading it, yet the builder returned Ok",
                                ));
                            }
                            if corrupted {
                                ctx.count("probe.accepted_after_corruption");
                            }
                            ctx.state_changes += 1;
                            ctx.event("build", "Ok");
                            // no silent category mis-assignment
                            let valid_utf8 = std::str::from_utf8(&char_def_bytes).is_ok();
                            if let Some(rc) = reference_char_def(&char_def).filter(|_| valid_utf8) {
                                ctx.count("probe.charinfo_checked");
                                for cp in sample_points(&char_def) {
                                    let c = char::from_u32(cp).unwrap_or('\u{FFFD}');
                                    if c == '\u{FFFD}' && cp != 0xFFFD {
                                        continue; // surrogate
                                    }
                                    let got = d.verif_char_info(c);
                                    let Some(want) = rc.info(cp) else {
                                        return Err(Violation::new(
                                            "C10.char_category",
                                            format!(
                                                "U+{cp:04X} belongs to a category with id >= 18, which the 18-bit category set cannot represent, yet char.def was accepted (assigned {got:?})"
                                            ),
                                        ));
                                    };
                                    if got != want {
                                        return Err(Violation::new(
                                            "C10.char_category",
                                            format!(
                                                "U+{cp:04X}: accepted char.def assigns (cate_idset, base, invoke, group, length) = {got:?}, the reference interpretation of the same file gives {want:?}"
                                            ),
                                        ));
                                    }
                                }
                                let names = d.verif_category_names();
                                for (n, c) in &rc.cats {
                                    if c.id < 18 && names.get(c.id as usize) != Some(n) {
                                        return Err(Violation::new(
                                            "C10.category_names",
                                            format!("category {n} should have id {} but the table is {names:?}", c.id),
                                        ));
                                    }
                                }
                            } else {
                                ctx.count("probe.charinfo_unchecked");
                            }
                            dict = Some(check_safe_use(d, &probes, "after build", ctx, &mut repair)?);
                        }
                    }
                }
                "LoadUser" => {
                    let Some(d) = dict.take() else { continue };
                    ctx.count("op.load_user");
                    let f = op.get_fault("user.csv");
                    let before_hard = ctx.counters.get("fault.hard").copied().unwrap_or(0);
                    match load_user(d, plan.file("user.csv"), &f, ctx) {
                        Err(p) => {
                            return Err(panic_violation(
                                "C10.user",
                                &format!("reset_user_lexicon_from_reader panicked ({})", op.str(0)),
                                &p,
                            ))
                        }
                        Ok(Err(e)) => {
                            ctx.event("load user", &format!("Err({})", e.chars().take(60).collect::<String>()));
                            return Ok(()); // consumed
                        }
                        Ok(Ok(d)) => {
                            if ctx.counters.get("fault.hard").copied().unwrap_or(0) > before_hard {
                                return Err(Violation::new(
                                    "C10.io_error_swallowed",
                                    "the user-lexicon reader returned a hard I/O error, yet loading returned Ok",
                                ));
                            }
                            ctx.event("load user", "Ok");
                            repair.stage += 1;
                            dict = Some(check_safe_use(d, &probes, "after loading the user lexicon", ctx, &mut repair)?);
                        }
                    }
                }
                "Map" => {
                    let Some(d) = dict.take() else { continue };
                    ctx.count("op.map");
                    let (l, r) = (parse_ids(op.str(0)), parse_ids(op.str(1)));
                    match map_ids(d, &l, &r) {
                        Err(p) => {
                            return Err(panic_violation(
                                "C10.map",
                                &format!("map_connection_ids_from_iter panicked for left={l:?} right={r:?}"),
                                &p,
                            ))
                        }
                        Ok(Err(e)) => {
                            ctx.event("map", &format!("Err({})", e.chars().take(60).collect::<String>()));
                            return Ok(());
                        }
                        Ok(Ok(d)) => {
                            ctx.event("map", "Ok");
                            repair.stage += 1;
                            dict = Some(check_safe_use(d, &probes, "after mapping", ctx, &mut repair)?);
                        }
                    }
                }
                other => return Err(Violation::new("C10.plan", format!("unknown op {other}"))),
            }
        }
        Ok(())
    }

    fn nontrivial(&self, plan: &Plan, _ctx: &Ctx) -> bool {
        // a run is non-trivial when at least one storage or stream fault was applied
        !plan.file("faults").is_empty() || plan.ops.iter().any(|o| !o.faults.is_empty())
    }

    fn describe(&self) -> ScenarioInfo {
        ScenarioInfo {
            level: "exploration",
            rule: "one seeded run = a valid seeded world (matrix/raw/dual) with 0-3 storage faults applied to one or two of lex.csv, matrix.def, char.def, unk.def, bigram.right/left/cost (generic: emptied, truncated, bit flip, byte lost/inserted, line lost/duplicated/swapped, field lost/duplicated, number replaced by a boundary value, final newline; structured: the documented hazards of each format), built through readers with seeded short reads/EINTR/hard errors; then optionally a (possibly corrupted) user lexicon and a (possibly malformed) id mapping. Every call must return Ok or Err without panicking; an accepted dictionary must tokenize ~60 probe sentences (all alphabet characters, characters at and around every range end of the corrupted char.def) under every option set without panic and with ids inside the connector, must not swallow a fired I/O error, and, when char.def is still inside the strict reference grammar, must assign categories exactly like the reference interpreter. Added later: a field replaced by 60-180 multi-byte characters (with an ASCII prefix of 0-2 bytes), char.def worlds with a last line that hands a span back to DEFAULT alone. Round 5: a category named like the concatenation of two others (KANJINUMERIC), commented-out category names after a free-standing '#'. distinct_nontrivial = distinct plan hashes of runs with >= 1 storage or stream fault",
            assumptions: vec![
                "matrix.def headers implying more than 2^22 cells are not generated (accepted by design; would only exhaust the simulator's memory)",
                "the category comparison runs only while the corrupted char.def stays inside the strict reference grammar; other accepted files are counted as unchecked",
                "allocation failure is not injected",
                "known finding KF-C10-1 (category without unk.def entries) is classified by its precise predicate and reported as KNOWN-FINDING",
            ],
            real: vec!["SystemDictionaryBuilder::{from_readers,from_readers_with_bigram_info}, all parsers, reset_user_lexicon_from_reader, map_connection_ids_from_iter, tokenizer"],
            stub: vec!["definition files (FaultyReader over memory)"],
            probes: vec![
                "probe.rejected",
                "probe.accepted_after_corruption",
                "probe.charinfo_checked",
                "probe.charinfo_unchecked",
                "op.load_user",
                "op.map",
                "fault.short_transfer",
                "fault.interrupted",
                "fault.hard",
            ],
        }
    }
}
