//! The only source of randomness in the simulator: splitmix64 seeding + xoshiro256**.
//! Every choice of a run (world, operations, schedule, faults) is drawn from one `Rng`
//! initialised from (VERIF_SEED, property id, run index) during the *planning* phase only.

#[derive(Clone)]
pub struct Rng {
    s: [u64; 4],
}

pub fn splitmix64(x: &mut u64) -> u64 {
    *x = x.wrapping_add(0x9E37_79B9_7F4A_7C15);
    let mut z = *x;
    z = (z ^ (z >> 30)).wrapping_mul(0xBF58_476D_1CE4_E5B9);
    z = (z ^ (z >> 27)).wrapping_mul(0x94D0_49BB_1331_11EB);
    z ^ (z >> 31)
}

/// FNV-1a, used for stable hashing of strings / event logs (never std's RandomState).
pub fn fnv1a(bytes: &[u8]) -> u64 {
    let mut h: u64 = 0xcbf2_9ce4_8422_2325;
    for &b in bytes {
        h ^= u64::from(b);
        h = h.wrapping_mul(0x0000_0100_0000_01B3);
    }
    h
}

pub fn mix(a: u64, b: u64) -> u64 {
    let mut x = a ^ b.rotate_left(32) ^ 0x5851_F42D_4C95_7F2D;
    let r = splitmix64(&mut x);
    let mut y = r ^ b;
    splitmix64(&mut y)
}

/// Seed of run `run` of property `prop` under the batch seed `seed`.
pub fn run_seed(seed: u64, prop: &str, run: u64) -> u64 {
    mix(mix(seed, fnv1a(prop.as_bytes())), run)
}

impl Rng {
    pub fn new(seed: u64) -> Self {
        let mut x = seed;
        let s = [
            splitmix64(&mut x),
            splitmix64(&mut x),
            splitmix64(&mut x),
            splitmix64(&mut x),
        ];
        Self { s }
    }

    pub fn next_u64(&mut self) -> u64 {
        let result = self.s[1].wrapping_mul(5).rotate_left(7).wrapping_mul(9);
        let t = self.s[1] << 17;
        self.s[2] ^= self.s[0];
        self.s[3] ^= self.s[1];
        self.s[1] ^= self.s[2];
        self.s[0] ^= self.s[3];
        self.s[2] ^= t;
        self.s[3] = self.s[3].rotate_left(45);
        result
    }

    /// Uniform in `0..n` (n > 0).
    pub fn below(&mut self, n: u64) -> u64 {
        debug_assert!(n > 0);
        // multiply-shift; bias is irrelevant here
        ((u128::from(self.next_u64()) * u128::from(n)) >> 64) as u64
    }

    pub fn usize(&mut self, n: usize) -> usize {
        self.below(n as u64) as usize
    }

    /// Uniform in `lo..=hi`.
    pub fn range(&mut self, lo: i64, hi: i64) -> i64 {
        debug_assert!(lo <= hi);
        lo + self.below((hi - lo + 1) as u64) as i64
    }

    /// True with probability `num/den`.
    pub fn chance(&mut self, num: u64, den: u64) -> bool {
        self.below(den) < num
    }

    pub fn pick<'a, T>(&mut self, xs: &'a [T]) -> &'a T {
        &xs[self.usize(xs.len())]
    }

    pub fn shuffle<T>(&mut self, xs: &mut [T]) {
        for i in (1..xs.len()).rev() {
            let j = self.usize(i + 1);
            xs.swap(i, j);
        }
    }

    /// A derived, independent generator (used to give sub-generators their own streams so
    /// that adding a draw in one place does not shift all later draws).
    pub fn fork(&mut self) -> Rng {
        Rng::new(self.next_u64())
    }
}
