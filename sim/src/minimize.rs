//! Delta debugging over the explicit plan while the *same oracle* keeps failing.

use crate::core::{Ctx, Scenario};
use crate::plan::{Fault, Plan};

pub struct MinStats {
    pub attempts: u64,
    pub accepted: u64,
}

fn fails_same(
    scen: &dyn Scenario,
    plan: &Plan,
    oracle: &str,
    known: &std::collections::BTreeSet<String>,
) -> bool {
    let mut ctx = Ctx::new(false);
    ctx.listed_known = known.clone();
    match crate::core::run_plan(scen, plan, &mut ctx) {
        Err(v) => v.oracle == oracle,
        Ok(()) => false,
    }
}

/// Returns a (locally) minimal plan that still fails the same oracle.
pub fn minimize(
    scen: &dyn Scenario,
    plan: &Plan,
    oracle: &str,
    known: &std::collections::BTreeSet<String>,
    budget: u64,
) -> (Plan, MinStats) {
    let mut best = plan.clone();
    let mut st = MinStats {
        attempts: 0,
        accepted: 0,
    };
    // Plans with files of megabytes cost a second per execution: the number of attempts is cut so
    // that minimising stays around two minutes. (The only use of a real clock in the simulator
    // besides the watchdog: it bounds how far the plan is shrunk, never what a plan does - the
    // shrunk plan is a replay file like any other and is confirmed in a fresh process.)
    let t0 = std::time::Instant::now();
    let _ = fails_same(scen, plan, oracle, known);
    let per_attempt = t0.elapsed().as_secs_f64().max(1e-4);
    let budget = budget.min(((120.0 / per_attempt) as u64).max(15));
    let try_plan = |cand: Plan, best: &mut Plan, st: &mut MinStats| -> bool {
        if st.attempts >= budget || cand == *best {
            return false;
        }
        st.attempts += 1;
        if fails_same(scen, &cand, oracle, known) {
            *best = cand;
            st.accepted += 1;
            true
        } else {
            false
        }
    };

    loop {
        let before = best.clone();

        // 1. drop operations (chunks, then singles)
        let mut chunk = (best.ops.len() / 2).max(1);
        while chunk >= 1 && !best.ops.is_empty() {
            let mut i = 0;
            while i < best.ops.len() {
                let mut cand = best.clone();
                let end = (i + chunk).min(cand.ops.len());
                cand.ops.drain(i..end);
                if !try_plan(cand, &mut best, &mut st) {
                    i += chunk;
                }
            }
            if chunk == 1 {
                break;
            }
            chunk /= 2;
        }

        // 2. drop / simplify faults
        for i in 0..best.ops.len() {
            let names: Vec<String> = best.ops[i].faults.keys().cloned().collect();
            for name in names {
                let mut cand = best.clone();
                cand.ops[i].faults.remove(&name);
                if try_plan(cand, &mut best, &mut st) {
                    continue;
                }
                let f = best.ops[i].faults[&name].clone();
                let variants = [
                    Fault {
                        chunks: vec![],
                        ..f.clone()
                    },
                    Fault {
                        intr: vec![],
                        ..f.clone()
                    },
                    Fault {
                        hard_at: f.hard_at.map(|_| 0),
                        ..f.clone()
                    },
                    Fault {
                        hard_kind: 0,
                        ..f.clone()
                    },
                    Fault {
                        wrap: 0,
                        ..f.clone()
                    },
                ];
                for v in variants {
                    if v != best.ops[i].faults[&name] {
                        let mut cand = best.clone();
                        cand.ops[i].faults.insert(name.clone(), v);
                        try_plan(cand, &mut best, &mut st);
                    }
                }
            }
        }

        // 3. drop whole files, then lines of text files
        let names: Vec<String> = best.files.keys().cloned().collect();
        for name in &names {
            let mut cand = best.clone();
            cand.files.remove(name);
            if try_plan(cand, &mut best, &mut st) {
                continue;
            }
            let data = best.files[name].clone();
            let Ok(text) = String::from_utf8(data) else {
                continue;
            };
            let mut lines: Vec<String> = text.split_inclusive('\n').map(|s| s.to_string()).collect();
            let mut chunk = (lines.len() / 2).max(1);
            loop {
                let mut i = 0;
                while i < lines.len() {
                    let mut l2 = lines.clone();
                    let end = (i + chunk).min(l2.len());
                    l2.drain(i..end);
                    let mut cand = best.clone();
                    cand.files.insert(name.clone(), l2.concat().into_bytes());
                    if try_plan(cand, &mut best, &mut st) {
                        lines = l2;
                    } else {
                        i += chunk;
                    }
                }
                if chunk == 1 {
                    break;
                }
                chunk /= 2;
            }
        }

        // 4. shrink string arguments of operations (drop characters)
        for i in 0..best.ops.len() {
            // only sentence-carrying operations: elsewhere the strings are stream names or id lists
            if best.ops[i].kind != "Reset" {
                continue;
            }
            for k in 0..best.ops[i].s.len() {
                let chars: Vec<char> = best.ops[i].s[k].chars().collect();
                if chars.len() > 24 {
                    continue;
                }
                let mut cur = chars;
                let mut j = 0;
                while j < cur.len() {
                    let mut c2 = cur.clone();
                    c2.remove(j);
                    let mut cand = best.clone();
                    cand.ops[i].s[k] = c2.iter().collect();
                    if try_plan(cand, &mut best, &mut st) {
                        cur = c2;
                    } else {
                        j += 1;
                    }
                }
            }
        }

        // 5. simplify scalar knobs
        let keys: Vec<String> = best.params.keys().cloned().collect();
        for k in keys {
            let v = best.params[&k];
            for nv in [0, 1, v / 2] {
                if nv != v && nv.abs() < v.abs().max(2) {
                    let mut cand = best.clone();
                    cand.params.insert(k.clone(), nv);
                    if try_plan(cand, &mut best, &mut st) {
                        break;
                    }
                }
            }
        }

        if best == before || st.attempts >= budget {
            break;
        }
    }
    (best, st)
}
