//! Dictionary operations through fault-injecting streams, each guarded against panics.

use vibrato::Dictionary;

use crate::core::{catch, panic_violation, Ctx, PanicInfo, Violation};
use crate::io::{FaultyReader, FaultySink};
use crate::plan::Fault;

pub type Guarded<T> = Result<Result<T, String>, PanicInfo>;

/// `Dictionary::write` into a simulated file. Returns (result, bytes that reached the medium).
pub fn write_image(dict: &Dictionary, fault: &Fault, ctx: &mut Ctx) -> (Guarded<usize>, Vec<u8>) {
    let mut sink = FaultySink::new(fault);
    let r = catch(|| dict.write(&mut sink).map_err(|e| e.to_string()));
    ctx.fired(&sink.fired);
    (r, sink.data)
}

/// `Dictionary::read` from a simulated file.
pub fn read_image(bytes: &[u8], fault: &Fault, ctx: &mut Ctx) -> Guarded<Dictionary> {
    let mut rdr = FaultyReader::new(bytes, fault);
    let r = catch(|| Dictionary::read(&mut rdr).map_err(|e| e.to_string()));
    ctx.fired(&rdr.fired);
    r
}

/// `reset_user_lexicon_from_reader(Some(csv))`; the dictionary is consumed (as in the API).
pub fn load_user(dict: Dictionary, csv: &[u8], fault: &Fault, ctx: &mut Ctx) -> Guarded<Dictionary> {
    let mut rdr = FaultyReader::new(csv, fault);
    let r = catch(|| {
        dict.reset_user_lexicon_from_reader(Some(&mut rdr))
            .map_err(|e| e.to_string())
    });
    ctx.fired(&rdr.fired);
    r
}

pub fn clear_user(dict: Dictionary) -> Guarded<Dictionary> {
    catch(|| {
        dict.reset_user_lexicon_from_reader(None::<&[u8]>)
            .map_err(|e| e.to_string())
    })
}

/// An iterator over a mapping list that reveals nothing about its length (`size_hint` = (0, None)),
/// like ids parsed lazily from the lines of a mapping file.
struct Lazy(std::vec::IntoIter<u16>);
impl Iterator for Lazy {
    type Item = u16;
    fn next(&mut self) -> Option<u16> {
        self.0.next()
    }
}

/// `map_connection_ids_from_iter`; how the two lists are handed over (as vectors, as lazy
/// iterators of unknown length, or one of each) is a function of the lists themselves.
pub fn map_ids(dict: Dictionary, lmap: &[u16], rmap: &[u16]) -> Guarded<Dictionary> {
    let l = lmap.to_vec();
    let r = rmap.to_vec();
    let style = (l.iter().chain(r.iter()).map(|&x| u64::from(x)).sum::<u64>() + l.len() as u64) % 4;
    catch(|| {
        match style {
            0 => dict.map_connection_ids_from_iter(Lazy(l.into_iter()), Lazy(r.into_iter())),
            1 => dict.map_connection_ids_from_iter(l, Lazy(r.into_iter())),
            _ => dict.map_connection_ids_from_iter(l, r),
        }
        .map_err(|e| e.to_string())
    })
}

/// Flattens a guarded result of an operation that must succeed on valid input.
pub fn must<T>(oracle: &str, what: &str, g: Guarded<T>) -> Result<T, Violation> {
    match g {
        Ok(Ok(v)) => Ok(v),
        Ok(Err(e)) => Err(Violation::new(
            &format!("{oracle}.err"),
            format!("{what} returned an error on valid input: {e}"),
        )),
        Err(p) => Err(panic_violation(oracle, what, &p)),
    }
}
