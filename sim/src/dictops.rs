//! Dictionary operations through fault-injecting streams, each guarded against panics.

use vibrato::Dictionary;

use crate::core::{catch, panic_violation, Ctx, PanicInfo, Violation};
use crate::io::{FaultyReader, FaultySink};
use crate::plan::Fault;

pub type Guarded<T> = Result<Result<T, String>, PanicInfo>;

/// `Dictionary::write` into a simulated file. Returns (result, bytes that reached the medium).
pub fn write_image(dict: &Dictionary, fault: &Fault, ctx: &mut Ctx) -> (Guarded<usize>, Vec<u8>) {
    let mut sink = FaultySink::new(fault);
    let r = catch(|| dict.write(&mut sink).map_err(|e| e.to_string()));
    ctx.fired(&sink.fired);
    (r, sink.data)
}

/// `Dictionary::read` from a simulated file.
pub fn read_image(bytes: &[u8], fault: &Fault, ctx: &mut Ctx) -> Guarded<Dictionary> {
    let mut rdr = FaultyReader::new(bytes, fault);
    let r = catch(|| Dictionary::read(&mut rdr).map_err(|e| e.to_string()));
    ctx.fired(&rdr.fired);
    r
}

/// `reset_user_lexicon_from_reader(Some(csv))`; the dictionary is consumed (as in the API).
pub fn load_user(dict: Dictionary, csv: &[u8], fault: &Fault, ctx: &mut Ctx) -> Guarded<Dictionary> {
    let mut rdr = FaultyReader::new(csv, fault);
    let r = catch(|| {
        dict.reset_user_lexicon_from_reader(Some(&mut rdr))
            .map_err(|e| e.to_string())
    });
    ctx.fired(&rdr.fired);
    r
}

pub fn clear_user(dict: Dictionary) -> Guarded<Dictionary> {
    catch(|| {
        dict.reset_user_lexicon_from_reader(None::<&[u8]>)
            .map_err(|e| e.to_string())
    })
}

pub fn map_ids(dict: Dictionary, lmap: &[u16], rmap: &[u16]) -> Guarded<Dictionary> {
    let l = lmap.to_vec();
    let r = rmap.to_vec();
    catch(|| {
        dict.map_connection_ids_from_iter(l, r)
            .map_err(|e| e.to_string())
    })
}

/// Flattens a guarded result of an operation that must succeed on valid input.
pub fn must<T>(oracle: &str, what: &str, g: Guarded<T>) -> Result<T, Violation> {
    match g {
        Ok(Ok(v)) => Ok(v),
        Ok(Err(e)) => Err(Violation::new(
            &format!("{oracle}.err"),
            format!("{what} returned an error on valid input: {e}"),
        )),
        Err(p) => Err(panic_violation(oracle, what, &p)),
    }
}
