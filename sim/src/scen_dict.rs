//! Dictionary-lifecycle simulators.
//! C05 — write/read round trip: replicas that went through write -> (faulty streams) -> read at
//!       arbitrary points of a history of later operations must never diverge from the original.
//! C06 — connection-id remapping: a mapped replica vs a never-mapped replica under the composed
//!       permutation; malformed mappings are rejected.
//! C08 — user lexicon: history replica vs pristine replicas (rebuilt with only the current rows;
//!       system lexicon extended by the rows); malformed lexicons are rejected.

use vibrato::Dictionary;

use crate::core::{catch, panic_violation, Check, Ctx, Scenario, ScenarioInfo, Tier, Violation};
use crate::dictops::{clear_user, load_user, map_ids, must, read_image, write_image, Guarded};
use crate::io::{gen_benign, gen_hard};
use crate::obs::{build_plain, diff_obs, has_space, make_tokenizer, observe, option_sets, Obs, Tok};
use crate::plan::{Fault, Op, Plan};
use crate::rng::Rng;
use crate::world::{
    gen_perm, gen_probes, gen_user_csv, gen_world, join_ids, parse_ids, WorldCfg, WorldInfo,
    CONN_DUAL,
};

/// State-changing events applied so far (what a restart from the durable sources must replay).
#[derive(Clone)]
enum HEvent {
    User(Option<Vec<u8>>),
    Map(Vec<u16>, Vec<u16>),
}

fn rebuild(
    prefix: &str,
    plan: &Plan,
    order_seed: u64,
    history: &[HEvent],
    ctx: &mut Ctx,
) -> Result<Dictionary, Violation> {
    let mut d = build_plain(prefix, &plan.files, plan.param("conn"), order_seed, ctx)?;
    let none = Fault::default();
    for e in history {
        d = match e {
            HEvent::User(Some(csv)) => must(
                &format!("{prefix}.replay.user"),
                "replaying user lexicon",
                load_user(d, csv, &none, ctx),
            )?,
            HEvent::User(None) => must(&format!("{prefix}.replay.clear"), "replaying clear", clear_user(d))?,
            HEvent::Map(l, r) => must(&format!("{prefix}.replay.map"), "replaying map", map_ids(d, l, r))?,
        };
    }
    Ok(d)
}

/// Probe sentences are separated by U+0001 (they may contain line breaks); older replay files
/// separate them by line breaks.
pub fn probes_of(plan: &Plan) -> Vec<String> {
    let text = plan.file_str("probes");
    let sep = if text.contains('\u{1}') { '\u{1}' } else { '\n' };
    text.split(sep).map(|s| s.to_string()).collect()
}

fn observe_or(prefix: &str, what: &str, d: Dictionary, probes: &[String]) -> Result<(Dictionary, Obs), Violation> {
    let (d, o) = observe(d, probes, true);
    match o {
        Ok(o) => Ok((d, o)),
        Err(p) => Err(panic_violation(&format!("{prefix}.observe"), what, &p)),
    }
}

fn gen_dict_world(rng: &mut Rng, plan: &mut Plan, n_users: usize) -> WorldInfo {
    // sizes beyond the small ones now and then: more than 32768 matrix cells (182..=300 ids per
    // side), a user lexicon file of more than 64 KiB
    let cfg = WorldCfg {
        huge_dim_one_in: 250,
        extreme_ids_one_in: 2500,
        one_id_side_one_in: 40,
        threshold_sizes_one_in: 60,
        multiline_feature_one_in: 60,
        ..WorldCfg::default()
    };
    let info = gen_world(rng, plan, &cfg);
    let mut extra_probes: Vec<String> = vec![];
    for i in 0..n_users {
        let mut csv = gen_user_csv(&mut rng.fork(), &info, &format!("U{i}-"));
        let mut r = rng.fork();
        if !csv.ends_with('\n') {
            csv.push('\n');
        }
        if r.chance(1, 5) {
            // user rows that equal a system row in surface, ids and cost (only the feature
            // differs): the two words are distinct candidates of equal cost
            let lex = plan.file_str("lex.csv");
            let sys_rows: Vec<&str> = lex.lines().filter(|l| !l.contains('"')).collect();
            for k in 0..1 + r.usize(2) {
                if let Some(row) = (!sys_rows.is_empty()).then(|| *r.pick(&sys_rows)) {
                    let cols: Vec<&str> = row.splitn(5, ',').collect();
                    if cols.len() == 5 {
                        csv.push_str(&format!("{},{},{},{},UTWIN{i}-{k}\n", cols[0], cols[1], cols[2], cols[3]));
                        extra_probes.push(format!("{0}{0}", cols[0]));
                    }
                }
            }
        }
        if r.chance(1, 30) {
            // a surface with a line break (CR LF) in a quoted field
            csv.push_str(&format!(
                "\"a\r\nb\",{},{},-300,UCRLF{i}\n",
                r.usize(info.num_left),
                r.usize(info.num_right)
            ));
            extra_probes.push("a\r\nba\r\nb".into());
            extra_probes.push("a\nb".into());
        }
        if r.chance(1, 150) {
            // filler rows first, so that the ordinary rows (whose surfaces the probes use) lie
            // beyond the first 64 KiB of the file
            let mut filler = String::new();
            let mut k = 0;
            while filler.len() < 66_000 + r.usize(70_000) {
                let pad = "p".repeat(if r.chance(1, 2) { 20 + r.usize(60) } else { 1000 + r.usize(2900) }); // a lexicon field may hold at most 4096 bytes
                filler.push_str(&format!(
                    "填{k}x,{},{},{},FILL{k},{pad}\n",
                    r.usize(info.num_left),
                    r.usize(info.num_right),
                    r.range(-500, 500)
                ));
                k += 1;
            }
            csv = filler + &csv;
            plan.set_param("huge_user_csv", 1);
        }
        plan.set_file(&format!("user{i}.csv"), csv);
    }
    let mut probes = gen_probes(&mut rng.fork(), &info.surfaces, 5);
    probes.extend(extra_probes);
    plan.set_file("probes", probes.join("\u{1}"));
    info
}

/// Size probes shared by the three scenarios of this file.
fn size_probes(plan: &Plan, ctx: &mut Ctx) {
    if plan.param("huge_user_csv") == 1 {
        ctx.count("probe.user_csv_over_64k");
    }
    if plan.param("extreme_ids") == 1 {
        ctx.count("probe.id_65535_in_use");
    }
    if plan.param("huge_dims") == 1 {
        ctx.count("probe.more_than_32768_id_pairs");
    }
}

fn map_op(rng: &mut Rng, info: &WorldInfo) -> Op {
    Op::new("Map")
        .s(&join_ids(&gen_perm(rng, info.num_left)))
        .s(&join_ids(&gen_perm(rng, info.num_right)))
}

// =============================================================================================
// C05

pub struct RoundTripScenario;

struct Replica {
    dict: Option<Dictionary>,
    /// false for a replica rebuilt under another dual-connector split (bytes legitimately differ)
    bytes_comparable: bool,
    generation: u32,
}

impl Scenario for RoundTripScenario {
    fn id(&self) -> &'static str {
        "C05"
    }
    fn runs(&self, tier: Tier) -> u64 {
        match tier {
            Tier::Quick => 15_000,
            Tier::Thorough => 400_000,
        }
    }
    fn plan(&self, rng: &mut Rng, _tier: Tier, seed: u64, run: u64) -> Plan {
        let mut plan = Plan::new("C05", seed, run);
        let info = gen_dict_world(rng, &mut plan, 3);
        let n = 2 + rng.usize(9);
        let mut replicas = 1usize;
        // optional initial state
        if rng.chance(1, 3) {
            plan.ops.push(Op::new("LoadUser").n(&[0]));
        }
        if rng.chance(1, 3) {
            plan.ops.push(map_op(rng, &info));
        }
        for _ in 0..n {
            let op = match rng.below(14) {
                0..=3 if replicas < 4 => {
                    replicas += 1;
                    Op::new("RoundTrip")
                        .n(&[rng.usize(replicas - 1) as i64])
                        .fault("sink", gen_benign(rng, 4096))
                        .fault("src", gen_benign(rng, 4096))
                }
                4 => Op::new("LoadUser")
                    .n(&[rng.range(0, 2)])
                    .fault("src", gen_benign(rng, 64)),
                5 => Op::new("ClearUser"),
                6 | 7 => map_op(rng, &info),
                8 => Op::new("WriteAll"),
                9 => {
                    let mut f = gen_hard(rng, 1 << 20, &[0, 1, 2]);
                    f.hard_at = None;
                    Op::new("FailWrite")
                        .n(&[rng.usize(replicas) as i64, rng.range(0, (1 << 32) - 1), *rng.pick(&[0i64, 1, 2])])
                        .fault("sink", f)
                }
                10 => {
                    let mut f = gen_hard(rng, 1 << 20, &[0, 1, 2, 3]);
                    f.hard_at = None;
                    Op::new("FailRead")
                        .n(&[rng.usize(replicas) as i64, rng.range(0, (1 << 32) - 1), *rng.pick(&[0i64, 1, 2, 3])])
                        .fault("src", f)
                }
                11 if info.conn == CONN_DUAL && replicas < 4 => {
                    replicas += 1;
                    Op::new("AddRebuilt").n(&[(rng.next_u64() >> 2) as i64])
                }
                _ => Op::new("Observe"),
            };
            plan.ops.push(op);
        }
        plan.ops.push(Op::new("Observe"));
        plan.ops.push(Op::new("WriteAll"));
        plan
    }

    fn execute(&self, plan: &Plan, ctx: &mut Ctx) -> Check {
        size_probes(plan, ctx);
        let probes = probes_of(plan);
        let order_seed = plan.param("order_seed") as u64;
        let original = build_plain("C05", &plan.files, plan.param("conn"), order_seed, ctx)?;
        let mut replicas = vec![Replica {
            dict: Some(original),
            bytes_comparable: true,
            generation: 0,
        }];
        let mut history: Vec<HEvent> = vec![];
        let none = Fault::default();
        for op in &plan.ops {
            let kind = op.kind.as_str();
            match kind {
                "RoundTrip" => {
                    let src = (op.num(0) as usize).min(replicas.len() - 1);
                    let d = replicas[src].dict.take().unwrap();
                    let (r, bytes) = write_image(&d, &op.get_fault("sink"), ctx);
                    let n = must("C05.write", "Dictionary::write (benign faults only)", r)?;
                    if n != bytes.len() {
                        return Err(Violation::new(
                            "C05.write.count",
                            format!("write returned {n} but the sink accepted {} bytes", bytes.len()),
                        ));
                    }
                    let gen = replicas[src].generation + 1;
                    let comparable = replicas[src].bytes_comparable;
                    replicas[src].dict = Some(d);
                    let d2 = must(
                        "C05.read",
                        "Dictionary::read of a complete image (benign faults only)",
                        read_image(&bytes, &op.get_fault("src"), ctx),
                    )?;
                    if gen >= 2 {
                        ctx.count("probe.roundtrip_of_roundtrip");
                    }
                    if history.iter().any(|e| matches!(e, HEvent::Map(..))) {
                        ctx.count("probe.roundtrip_with_mapper");
                    }
                    replicas.push(Replica {
                        dict: Some(d2),
                        bytes_comparable: comparable,
                        generation: gen,
                    });
                    ctx.state_changes += 1;
                    ctx.event(&op.brief(), &format!("{n} bytes, new replica #{}", replicas.len() - 1));
                }
                "AddRebuilt" => {
                    let d = rebuild("C05.rebuilt", plan, op.num(0) as u64, &history, ctx)?;
                    replicas.push(Replica {
                        dict: Some(d),
                        bytes_comparable: false,
                        generation: 0,
                    });
                    ctx.count("probe.rebuilt_other_split");
                    ctx.event(&op.brief(), "rebuilt");
                }
                "LoadUser" | "ClearUser" | "Map" => {
                    let csv = plan.file(&format!("user{}.csv", op.num(0))).to_vec();
                    let (l, r) = (parse_ids(op.str(0)), parse_ids(op.str(1)));
                    for (i, rep) in replicas.iter_mut().enumerate() {
                        let d = rep.dict.take().unwrap();
                        let what = format!("{} on replica #{i}", op.brief());
                        let d = match kind {
                            "LoadUser" => must("C05.load_user", &what, load_user(d, &csv, &op.get_fault("src"), ctx))?,
                            "ClearUser" => must("C05.clear_user", &what, clear_user(d))?,
                            _ => must("C05.map", &what, map_ids(d, &l, &r))?,
                        };
                        rep.dict = Some(d);
                    }
                    match kind {
                        "LoadUser" => {
                            if replicas.len() > 1 && history.iter().any(|e| matches!(e, HEvent::Map(..))) {
                                ctx.count("probe.user_after_roundtrip_with_mapper");
                            }
                            history.push(HEvent::User(Some(csv)))
                        }
                        "ClearUser" => history.push(HEvent::User(None)),
                        _ => history.push(HEvent::Map(l, r)),
                    }
                    ctx.state_changes += 1;
                    ctx.event(&op.brief(), "applied to all replicas");
                }
                "Observe" => {
                    let mut first: Option<Obs> = None;
                    for i in 0..replicas.len() {
                        let d = replicas[i].dict.take().unwrap();
                        let (d, o) = observe_or("C05", &format!("observing replica #{i}"), d, &probes)?;
                        replicas[i].dict = Some(d);
                        match &first {
                            None => first = Some(o),
                            Some(f) => {
                                if let Some(diff) = diff_obs(f, &o, &probes) {
                                    return Err(Violation::new(
                                        "C05.diverged",
                                        format!(
                                            "replica #{i} (generation {}, {}) diverged from the original: {diff}",
                                            replicas[i].generation,
                                            if replicas[i].bytes_comparable { "round trip" } else { "rebuilt" }
                                        ),
                                    ));
                                }
                            }
                        }
                    }
                    ctx.observations += 1;
                    ctx.event(&op.brief(), &format!("{} replicas equal", replicas.len()));
                }
                "WriteAll" => {
                    let mut first: Option<Vec<u8>> = None;
                    for (i, rep) in replicas.iter().enumerate() {
                        if !rep.bytes_comparable {
                            continue;
                        }
                        let (r, bytes) = write_image(rep.dict.as_ref().unwrap(), &none, ctx);
                        let n = must("C05.write", &format!("write of replica #{i}"), r)?;
                        if n != bytes.len() {
                            return Err(Violation::new(
                                "C05.write.count",
                                format!("write returned {n} but emitted {} bytes", bytes.len()),
                            ));
                        }
                        match &first {
                            None => first = Some(bytes),
                            Some(f) => {
                                if *f != bytes {
                                    let at = f.iter().zip(&bytes).position(|(a, b)| a != b).unwrap_or(f.len().min(bytes.len()));
                                    return Err(Violation::new(
                                        "C05.bytes",
                                        format!(
                                            "writing replica #{i} gives {} bytes, the original {}; first difference at offset {at}",
                                            bytes.len(),
                                            f.len()
                                        ),
                                    ));
                                }
                            }
                        }
                    }
                    ctx.observations += 1;
                    ctx.event(&op.brief(), "bytes equal");
                }
                "FailWrite" => {
                    let src = (op.num(0) as usize).min(replicas.len() - 1);
                    let d = replicas[src].dict.as_ref().unwrap();
                    let (r0, full) = write_image(d, &none, ctx);
                    let len = must("C05.write", "reference write", r0)?.max(1);
                    let k = (((op.num(1) as u128) * len as u128) >> 32) as u64;
                    let mut f = op.get_fault("sink");
                    f.hard_at = Some(k.min(len as u64 - 1));
                    f.hard_kind = op.num(2) as u8;
                    let (r, durable) = write_image(d, &f, ctx);
                    match r {
                        Ok(Err(_)) => {}
                        Ok(Ok(n)) => {
                            return Err(Violation::new(
                                "C05.fail_write.ok",
                                format!("write into a sink failing at byte {k} returned Ok({n}) with {} of {} bytes accepted", durable.len(), full.len()),
                            ))
                        }
                        Err(p) => return Err(panic_violation("C05.fail_write", &op.brief(), &p)),
                    }
                    ctx.event(&op.brief(), "Err");
                }
                "FailRead" => {
                    let src = (op.num(0) as usize).min(replicas.len() - 1);
                    let d = replicas[src].dict.as_ref().unwrap();
                    let (r0, full) = write_image(d, &none, ctx);
                    let len = must("C05.write", "reference write", r0)?.max(1);
                    let k = (((op.num(1) as u128) * len as u128) >> 32) as u64;
                    let mut f = op.get_fault("src");
                    f.hard_at = Some(k.min(len as u64 - 1));
                    f.hard_kind = op.num(2) as u8;
                    match read_image(&full, &f, ctx) {
                        Ok(Err(_)) => {}
                        Ok(Ok(_)) => {
                            return Err(Violation::new(
                                "C05.fail_read.ok",
                                format!("read from a reader failing at byte {k} of {len} returned Ok"),
                            ))
                        }
                        Err(p) => return Err(panic_violation("C05.fail_read", &op.brief(), &p)),
                    }
                    ctx.event(&op.brief(), "Err");
                }
                other => return Err(Violation::new("C05.plan", format!("unknown op {other}"))),
            }
        }
        match plan.param("conn") {
            0 => ctx.count("probe.conn_matrix"),
            1 => ctx.count("probe.conn_raw"),
            _ => ctx.count("probe.conn_dual"),
        }
        Ok(())
    }

    fn describe(&self) -> ScenarioInfo {
        ScenarioInfo {
            level: "exploration",
            rule: "one seeded run = a seeded dictionary (matrix/raw/dual) and a history of 3-12 events: RoundTrip(replica) through seeded short-write/EINTR sinks and short-read/EINTR readers (adds a replica, also of a replica that is itself a round trip), LoadUser/ClearUser/Map applied to every replica, AddRebuilt (dual only: rebuild from sources under another template split and replay the history), Observe (full token tuples for probes x option sets and every id-pair connection cost must be equal across replicas), WriteAll (all round-trip replicas write identical bytes; returned count == bytes accepted), FailWrite/FailRead (hard fault at a seeded offset must give Err). Added later (all three scenarios of this file): 1 world in 250 with 182-300 ids per side (> 32768 matrix cells), 1 in 2500 with 65536 ids on one side, 1 in 40 with a side that has the BOS/EOS id only, 1 in 60 with 250-257 homographs of one surface and a feature of 250-252 bytes, 1 lexicon row in 60 with a line break inside a quoted feature field, 1 user lexicon in 150 larger than 64 KiB (filler rows first), 1 in 5 with rows equal to a system row in surface, ids and cost, 1 in 30 with a surface containing CR LF; mapping lists are handed over as vectors or as lazy iterators of unknown length. Round 5 (C08): histories also save and reload the dictionary (write/read) and load an empty user-lexicon file (an error, or a user lexicon without words - never the previous words). distinct_nontrivial = distinct plan hashes of runs with >= 1 observation after >= 1 round trip or state change",
            assumptions: vec![
                "the seeded runs use the portable build; the portable<->AVX2 interchange is decided by the two-build exchange step of ./check (120 cases per direction in quick, 1500 in thorough; skipped with a note on CPUs without AVX2), reported under cross_build_exchange",
                "observational equality is over seeded probe sentences and all id pairs, not all sentences",
            ],
            real: vec!["Dictionary::{write,read,reset_user_lexicon_from_reader,map_connection_ids_from_iter}, all Encode/Decode impls, tokenizer"],
            stub: vec!["files/disk (FaultySink/FaultyReader over memory)"],
            probes: vec![
                "probe.more_than_32768_id_pairs",
                "probe.id_65535_in_use",
                "probe.user_csv_over_64k",
                "probe.roundtrip_of_roundtrip",
                "probe.roundtrip_with_mapper",
                "probe.user_after_roundtrip_with_mapper",
                "probe.rebuilt_other_split",
                "probe.conn_matrix",
                "probe.conn_raw",
                "probe.conn_dual",
                "fault.short_transfer",
                "fault.interrupted",
                "fault.hard",
            ],
        }
    }
}

// =============================================================================================
// C06

pub struct MappingScenario;

/// new_of_old for a mapping list (item i, 1-origin, names the old id that becomes i).
fn new_of_old(list: &[u16], dim: usize) -> Vec<u16> {
    let mut v = vec![0u16; dim];
    for (i, &o) in list.iter().enumerate() {
        if usize::from(o) < dim {
            v[usize::from(o)] = (i + 1) as u16;
        }
    }
    v
}

fn bad_mapping(kind: i64, dim_l: usize, dim_r: usize, salt: u64) -> (Vec<u16>, Vec<u16>, &'static str) {
    // (a side may have 65536 ids: ranges over usize, then narrowed)
    let idl: Vec<u16> = (1..dim_l).map(|x| x as u16).collect();
    let idr: Vec<u16> = (1..dim_r).map(|x| x as u16).collect();
    // an id beyond the range; with 65536 ids there is none: the last id once more (a repeated id
    // is invalid as well)
    let beyond = |dim: usize, plus: usize| -> u16 { u16::try_from(dim + plus).unwrap_or((dim - 1) as u16) };
    // a side with the BOS/EOS id only has exactly one valid list, the empty one: it cannot be made
    // too short or emptied, so the other side is the victim (or the list is made too long)
    if dim_l <= 1 && dim_r <= 1 {
        return (vec![1], vec![], "too long");
    }
    let left_side = if dim_l <= 1 {
        false
    } else if dim_r <= 1 {
        true
    } else {
        salt % 2 == 0
    };
    let mut l = idl.clone();
    let mut r = idr.clone();
    let (t, dim) = if left_side { (&mut l, dim_l) } else { (&mut r, dim_r) };
    let name = match kind {
        0 => {
            // contains 0
            let i = (salt as usize / 2) % t.len().max(1);
            if t.is_empty() {
                t.push(0)
            } else {
                t[i] = 0
            }
            "contains 0"
        }
        1 => {
            // duplicate (and therefore an omitted id)
            if t.len() >= 2 {
                t[1] = t[0];
            } else {
                t.push(1);
            }
            "duplicate id"
        }
        2 => {
            // too short: the last id omitted
            t.pop();
            "too short (omits an id)"
        }
        3 => {
            // too long: one id beyond the range appended (a valid permutation of a larger range)
            t.push(beyond(dim, 0));
            "too long"
        }
        4 => {
            // id >= dimension replacing a valid one
            if t.is_empty() {
                t.push(beyond(dim, 3))
            } else {
                t[0] = beyond(dim, 3)
            }
            "id out of range"
        }
        5 => {
            // left and right lists swapped (wrong lengths unless the dimensions coincide)
            return if dim_l != dim_r {
                (idr, idl, "left/right lists swapped")
            } else {
                let mut l2 = idl.clone();
                l2.pop();
                (l2, idr, "too short (omits an id)")
            };
        }
        _ => {
            t.clear();
            "empty"
        }
    };
    (l, r, name)
}

impl Scenario for MappingScenario {
    fn id(&self) -> &'static str {
        "C06"
    }
    fn runs(&self, tier: Tier) -> u64 {
        match tier {
            Tier::Quick => 30_000,
            Tier::Thorough => 800_000,
        }
    }
    fn plan(&self, rng: &mut Rng, _tier: Tier, seed: u64, run: u64) -> Plan {
        let mut plan = Plan::new("C06", seed, run);
        let info = gen_dict_world(rng, &mut plan, 3);
        let n = 2 + rng.usize(8);
        for _ in 0..n {
            let op = match rng.below(12) {
                0..=3 => map_op(rng, &info),
                4 | 5 => Op::new("LoadUser").n(&[rng.range(0, 2)]),
                6 => Op::new("ClearUser"),
                7 => Op::new("RoundTrip")
                    .fault("sink", gen_benign(rng, 4096))
                    .fault("src", gen_benign(rng, 4096)),
                8 | 9 => Op::new("BadMap").n(&[rng.range(0, 6), (rng.next_u64() >> 8) as i64]),
                _ => Op::new("Observe"),
            };
            let is_map = op.kind == "Map";
            plan.ops.push(op);
            if is_map && rng.chance(1, 3) {
                plan.ops.push(Op::new("Observe"));
            }
        }
        plan.ops.push(Op::new("Observe"));
        plan
    }

    fn execute(&self, plan: &Plan, ctx: &mut Ctx) -> Check {
        size_probes(plan, ctx);
        let probes = probes_of(plan);
        let order_seed = plan.param("order_seed") as u64;
        let conn = plan.param("conn");
        let mut r_dict = Some(build_plain("C06", &plan.files, conn, order_seed, ctx)?);
        let mut m_dict = Some(build_plain("C06", &plan.files, conn, order_seed, ctx)?);
        let nl = r_dict.as_ref().unwrap().verif_num_left();
        let nr = r_dict.as_ref().unwrap().verif_num_right();
        // composed permutation: original id -> current id in M
        let mut pl: Vec<u16> = (0..nl).map(|x| x as u16).collect();
        let mut pr: Vec<u16> = (0..nr).map(|x| x as u16).collect();
        let mut history: Vec<HEvent> = vec![];
        let mut shape = String::new();
        let none = Fault::default();
        for op in &plan.ops {
            let kind = op.kind.as_str();
            match kind {
                "Map" => {
                    let (l, r) = (parse_ids(op.str(0)), parse_ids(op.str(1)));
                    let d = m_dict.take().unwrap();
                    let d = must("C06.map", &op.brief(), map_ids(d, &l, &r))?;
                    m_dict = Some(d);
                    let nol = new_of_old(&l, nl);
                    let nor = new_of_old(&r, nr);
                    for x in pl.iter_mut() {
                        *x = nol[usize::from(*x)];
                    }
                    for x in pr.iter_mut() {
                        *x = nor[usize::from(*x)];
                    }
                    if l.iter().enumerate().all(|(i, &x)| usize::from(x) == i + 1) {
                        ctx.count("probe.identity_map");
                    }
                    history.push(HEvent::Map(l, r));
                    shape.push('M');
                    ctx.state_changes += 1;
                    ctx.event(&op.brief(), "ok");
                }
                "LoadUser" | "ClearUser" => {
                    let csv = plan.file(&format!("user{}.csv", op.num(0))).to_vec();
                    for (name, slot) in [("R", &mut r_dict), ("M", &mut m_dict)] {
                        let d = slot.take().unwrap();
                        let what = format!("{} on {name}", op.brief());
                        let d = if kind == "LoadUser" {
                            must("C06.load_user", &what, load_user(d, &csv, &none, ctx))?
                        } else {
                            must("C06.clear_user", &what, clear_user(d))?
                        };
                        *slot = Some(d);
                    }
                    if kind == "LoadUser" {
                        history.push(HEvent::User(Some(csv)));
                        shape.push('U');
                    } else {
                        history.push(HEvent::User(None));
                        shape.push('C');
                    }
                    ctx.state_changes += 1;
                    ctx.event(&op.brief(), "ok");
                }
                "RoundTrip" => {
                    let d = m_dict.take().unwrap();
                    let (r, bytes) = write_image(&d, &op.get_fault("sink"), ctx);
                    must("C06.write", "write of the mapped dictionary", r)?;
                    let d2 = must("C06.read", "read of the mapped dictionary", read_image(&bytes, &op.get_fault("src"), ctx))?;
                    m_dict = Some(d2);
                    shape.push('R');
                    ctx.state_changes += 1;
                    ctx.event(&op.brief(), "ok");
                }
                "BadMap" => {
                    let (l, r, name) = bad_mapping(op.num(0), nl, nr, op.num(1) as u64);
                    let d = m_dict.take().unwrap();
                    match map_ids(d, &l, &r) {
                        Ok(Err(_)) => {}
                        Ok(Ok(_)) => {
                            return Err(Violation::new(
                                "C06.badmap.accepted",
                                format!("malformed mapping ({name}) left={l:?} right={r:?} was accepted for dimensions {nl}x{nr}"),
                            ))
                        }
                        Err(p) => {
                            return Err(panic_violation(
                                "C06.badmap",
                                &format!("malformed mapping ({name}) left={l:?} right={r:?} for dimensions {nl}x{nr}"),
                                &p,
                            ))
                        }
                    }
                    match op.num(0) {
                        0 => ctx.count("probe.badmap_zero"),
                        1 => ctx.count("probe.badmap_duplicate"),
                        2 => ctx.count("probe.badmap_short"),
                        3 => ctx.count("probe.badmap_long"),
                        4 => ctx.count("probe.badmap_out_of_range"),
                        5 => ctx.count("probe.badmap_swapped"),
                        _ => ctx.count("probe.badmap_empty"),
                    }
                    // the dictionary was consumed by the failed call: restart from the sources
                    m_dict = Some(rebuild("C06.restart", plan, order_seed, &history, ctx)?);
                    ctx.event(&op.brief(), &format!("Err ({name}); M rebuilt by replaying the history"));
                }
                "Observe" => {
                    let (d, or) = observe_or("C06", "observing R", r_dict.take().unwrap(), &probes)?;
                    r_dict = Some(d);
                    let (d, om) = observe_or("C06", "observing M", m_dict.take().unwrap(), &probes)?;
                    m_dict = Some(d);
                    ctx.observations += 1;
                    if om.num_left != or.num_left || om.num_right != or.num_right {
                        return Err(Violation::new(
                            "C06.dims",
                            format!("dimensions changed by mapping: {}x{} vs {}x{}", om.num_right, om.num_left, or.num_right, or.num_left),
                        ));
                    }
                    for r in 0..nr {
                        for l in 0..nl {
                            let a = or.costs[r * nl + l];
                            let b = om.costs[usize::from(pr[r]) * nl + usize::from(pl[l])];
                            if a != b {
                                return Err(Violation::new(
                                    "C06.cost",
                                    format!(
                                        "cost(right={r}, left={l}) = {a} originally, but cost(right={}, left={}) = {b} after mapping (history {shape})",
                                        pr[r], pl[l]
                                    ),
                                ));
                            }
                        }
                    }
                    for (oi, (tr, tm)) in or.tokens.iter().zip(&om.tokens).enumerate() {
                        for (si, (sr, sm)) in tr.iter().zip(tm).enumerate() {
                            let want: Vec<Tok> = sr
                                .iter()
                                .map(|t| Tok {
                                    left: pl[usize::from(t.left)],
                                    right: pr[usize::from(t.right)],
                                    ..t.clone()
                                })
                                .collect();
                            if &want != sm {
                                return Err(Violation::new(
                                    "C06.tokens",
                                    format!(
                                        "sentence {:?} (option set #{oi}, history {shape}): mapped dictionary gives {:?}, expected {:?}",
                                        probes.get(si),
                                        sm.iter().map(|t| t.brief()).collect::<Vec<_>>(),
                                        want.iter().map(|t| t.brief()).collect::<Vec<_>>()
                                    ),
                                ));
                            }
                        }
                    }
                    if shape.contains("MM") {
                        ctx.count("probe.map_map");
                    }
                    if shape.contains("MU") {
                        ctx.count("probe.map_then_user");
                    }
                    if shape.contains("UM") {
                        ctx.count("probe.user_then_map");
                    }
                    if shape.contains("MMU") || (shape.matches('M').count() >= 2 && shape.ends_with('U')) {
                        ctx.count("probe.map_map_user");
                    }
                    if shape.contains("MRU") {
                        ctx.count("probe.map_roundtrip_user");
                    }
                    ctx.event(&op.brief(), &format!("equal up to the composed permutation (history {shape})"));
                }
                other => return Err(Violation::new("C06.plan", format!("unknown op {other}"))),
            }
        }
        match conn {
            0 => ctx.count("probe.conn_matrix"),
            1 => ctx.count("probe.conn_raw"),
            _ => ctx.count("probe.conn_dual"),
        }
        Ok(())
    }

    fn describe(&self) -> ScenarioInfo {
        ScenarioInfo {
            level: "exploration",
            rule: "one seeded run = a seeded dictionary in two replicas R (never mapped) and M, and a history of 3-10 events: Map(seeded permutations incl. identity, transposition, reversal; M only), LoadUser/ClearUser (both; CSV in original ids), RoundTrip(M) through benign-faulty streams, BadMap(kind in {contains 0, duplicate, too short, too long, out of range, swapped lists, empty}) which must return Err without panic (M is then rebuilt by replaying the history), Observe: tokens of M must equal tokens of R with ids translated by the harness-side composed permutation and cost_M(PR(r),PL(l)) == cost_R(r,l) for all id pairs. distinct_nontrivial = distinct plan hashes of runs with >= 1 observation after >= 1 state change",
            assumptions: vec![
                "the composed permutation is tracked by the harness (direction as documented by ConnIdMapper::parse: item i names the old id that becomes i)",
                "equality is over seeded probe sentences x option sets and all id pairs",
            ],
            real: vec!["Dictionary::map_connection_ids_from_iter, ConnIdMapper, connector/lexicon/unknown-handler remapping, user-lexicon loading, write/read"],
            stub: vec!["mapping files and CSVs (in-memory)"],
            probes: vec![
                "probe.more_than_32768_id_pairs",
                "probe.id_65535_in_use",
                "probe.user_csv_over_64k",
                "probe.map_map",
                "probe.map_then_user",
                "probe.user_then_map",
                "probe.map_map_user",
                "probe.map_roundtrip_user",
                "probe.identity_map",
                "probe.badmap_zero",
                "probe.badmap_duplicate",
                "probe.badmap_short",
                "probe.badmap_long",
                "probe.badmap_out_of_range",
                "probe.badmap_swapped",
                "probe.badmap_empty",
                "probe.conn_matrix",
                "probe.conn_raw",
                "probe.conn_dual",
            ],
        }
    }
}

// =============================================================================================
// C08

pub struct UserLexScenario;

fn bad_user_csv(kind: i64, nl: usize, nr: usize, base: &[u8]) -> (Vec<u8>, &'static str) {
    let mut v = base.to_vec();
    if !v.is_empty() && !v.ends_with(b"\n") {
        v.push(b'\n');
    }
    match kind {
        0 => {
            v.extend_from_slice(format!("zz,{},0,5,BAD-left\n", nl).as_bytes());
            (v, "left id == num_left")
        }
        1 => {
            v.extend_from_slice(format!("zz,0,{},5,BAD-right\n", nr + 7).as_bytes());
            (v, "right id > num_right")
        }
        2 => {
            v.extend_from_slice(format!("zz,{},{},5,BAD-both\n", nl + 1, nr).as_bytes());
            (v, "both ids out of range")
        }
        3 => {
            v.extend_from_slice("zz,x,0,5,BAD-nonnumeric\n".as_bytes());
            (v, "non-numeric id")
        }
        4 => {
            v.extend_from_slice("zz,0,0\n".as_bytes());
            (v, "too few fields")
        }
        5 => {
            v.extend_from_slice(b"z\xff\xfe,0,0,5,BAD-utf8\n");
            (v, "invalid UTF-8")
        }
        6 => {
            v.extend_from_slice(b"zz,65535,65535,5,BAD-max\n");
            (v, "ids 65535")
        }
        _ => {
            v.extend_from_slice(b"zz,0,0,40000,BAD-cost\n");
            (v, "cost out of i16 range")
        }
    }
}

/// Sorted candidate multiset of a lattice dump: everything except lex type and word id.
type Cand = (usize, usize, usize, u16, u16, String, i32);

fn lattice_of(
    prefix: &str,
    tokenizer: &vibrato::Tokenizer,
    s: &str,
) -> Result<(Vec<Cand>, Option<i32>), Violation> {
    let (nodes, eos) = catch(|| {
        let mut w = tokenizer.new_worker();
        w.reset_sentence(s);
        w.tokenize();
        if s.is_empty() {
            (vec![], None)
        } else {
            w.verif_lattice()
        }
    })
    .map_err(|p| panic_violation(prefix, &format!("lattice of {s:?}"), &p))?;
    let mut c: Vec<Cand> = nodes
        .into_iter()
        .filter(|n| n.end >= 1)
        .map(|n| (n.start_node, n.start_word, n.end, n.left_id, n.right_id, n.feature, n.min_cost))
        .collect();
    c.sort();
    Ok((c, eos.map(|e| e.min_cost)))
}

impl Scenario for UserLexScenario {
    fn id(&self) -> &'static str {
        "C08"
    }
    fn runs(&self, tier: Tier) -> u64 {
        match tier {
            Tier::Quick => 30_000,
            Tier::Thorough => 800_000,
        }
    }
    fn plan(&self, rng: &mut Rng, _tier: Tier, seed: u64, run: u64) -> Plan {
        let mut plan = Plan::new("C08", seed, run);
        let info = gen_dict_world(rng, &mut plan, 4);
        // The extended-system-lexicon replica concatenates lex.csv and the user rows; every file
        // ends with a newline here so that the comparison cannot depend on how the parser treats
        // a missing final newline (that is C11's subject, not C08's).
        for (name, data) in plan.files.iter_mut() {
            if name.ends_with(".csv") && !data.is_empty() && !data.ends_with(b"\n") {
                data.push(b'\n');
            }
        }
        if rng.chance(2, 5) {
            plan.ops.push(map_op(rng, &info));
            if rng.chance(1, 4) {
                plan.ops.push(map_op(rng, &info));
            }
        }
        let n = 2 + rng.usize(7);
        for _ in 0..n {
            let op = match rng.below(12) {
                0..=3 => Op::new("Load")
                    .n(&[rng.range(0, 3)])
                    .fault("src", gen_benign(rng, 64)),
                4 => Op::new("Clear"),
                // the dictionary (with whatever user lexicon it holds) is saved and loaded again
                11 if rng.chance(1, 2) => Op::new("WriteRead"),
                // a user lexicon file without any row
                11 => Op::new("LoadEmpty"),
                // a remapping while a user lexicon is (or is not) attached
                10 => map_op(rng, &info),
                5 | 6 => Op::new("LoadBad").n(&[rng.range(0, 7), rng.range(0, 3)]),
                7 => Op::new("LoadFail")
                    .n(&[rng.range(0, 3), rng.range(0, (1 << 32) - 1), *rng.pick(&[0i64, 1, 3])])
                    .fault("src", gen_benign(rng, 64)),
                _ => Op::new("Observe"),
            };
            plan.ops.push(op);
        }
        plan.ops.push(Op::new("Observe"));
        plan
    }

    fn execute(&self, plan: &Plan, ctx: &mut Ctx) -> Check {
        size_probes(plan, ctx);
        let probes = probes_of(plan);
        let order_seed = plan.param("order_seed") as u64;
        let conn = plan.param("conn");
        let mut d = Some(build_plain("C08", &plan.files, conn, order_seed, ctx)?);
        let nl = d.as_ref().unwrap().verif_num_left();
        let nr = d.as_ref().unwrap().verif_num_right();
        let mut maps: Vec<HEvent> = vec![];
        let mut current: Option<Vec<u8>> = None;
        let mut loads = 0;
        for op in &plan.ops {
            let kind = op.kind.as_str();
            let mapped = !maps.is_empty();
            match kind {
                "Map" => {
                    let (l, r) = (parse_ids(op.str(0)), parse_ids(op.str(1)));
                    d = Some(must("C08.map", &op.brief(), map_ids(d.take().unwrap(), &l, &r))?);
                    maps.push(HEvent::Map(l, r));
                    ctx.event(&op.brief(), "ok");
                }
                "Load" => {
                    let csv = plan.file(&format!("user{}.csv", op.num(0))).to_vec();
                    d = Some(must(
                        "C08.load",
                        &op.brief(),
                        load_user(d.take().unwrap(), &csv, &op.get_fault("src"), ctx),
                    )?);
                    if current.is_some() {
                        ctx.count("probe.replace");
                    }
                    current = Some(csv);
                    loads += 1;
                    ctx.state_changes += 1;
                    ctx.event(&op.brief(), "ok");
                }
                "LoadEmpty" => {
                    // an empty file either is an error (the pinned tree) or replaces the user
                    // lexicon by one without words; it never leaves the previous words in place
                    let none = Fault::default();
                    match load_user(d.take().unwrap(), b"", &none, ctx) {
                        Ok(Ok(d2)) => {
                            d = Some(d2);
                            ctx.event(&op.brief(), "Ok (no user words)");
                        }
                        Ok(Err(_)) => {
                            let mut h = maps.clone();
                            h.push(HEvent::User(None));
                            d = Some(rebuild("C08.restart", plan, order_seed, &h, ctx)?);
                            ctx.event(&op.brief(), "Err; rebuilt without user lexicon");
                        }
                        Err(p) => return Err(panic_violation("C08.empty", "an empty user lexicon", &p)),
                    }
                    if current.is_some() {
                        ctx.count("probe.empty_file_over_user_lexicon");
                    }
                    current = None;
                    ctx.state_changes += 1;
                }
                "WriteRead" => {
                    let none = Fault::default();
                    let (r, image) = crate::dictops::write_image(d.as_ref().unwrap(), &none, ctx);
                    must("C08.write", &op.brief(), r)?;
                    d = Some(must("C08.read", &op.brief(), crate::dictops::read_image(&image, &none, ctx))?);
                    if current.is_some() {
                        ctx.count("probe.write_read_with_user_lexicon");
                    }
                    ctx.state_changes += 1;
                    ctx.event(&op.brief(), "ok");
                }
                "Clear" => {
                    d = Some(must("C08.clear", &op.brief(), clear_user(d.take().unwrap()))?);
                    if current.is_some() {
                        ctx.count("probe.clear");
                    } else {
                        ctx.count("probe.clear_when_none");
                    }
                    current = None;
                    ctx.state_changes += 1;
                    ctx.event(&op.brief(), "ok");
                }
                "LoadBad" | "LoadFail" => {
                    let (csv, name, fault) = if kind == "LoadBad" {
                        let base = plan.file(&format!("user{}.csv", op.num(1))).to_vec();
                        let (csv, name) = bad_user_csv(op.num(0), nl, nr, &base);
                        (csv, name, Fault::default())
                    } else {
                        let csv = plan.file(&format!("user{}.csv", op.num(0))).to_vec();
                        let mut f = op.get_fault("src");
                        let len = csv.len().max(1);
                        let k = (((op.num(1) as u128) * len as u128) >> 32) as u64;
                        f.hard_at = Some(k.min(len as u64 - 1));
                        f.hard_kind = op.num(2) as u8;
                        (csv, "reader hard error", f)
                    };
                    let r: Guarded<Dictionary> = load_user(d.take().unwrap(), &csv, &fault, ctx);
                    match r {
                        Ok(Err(_)) => {}
                        Ok(Ok(_)) => {
                            return Err(Violation::new(
                                "C08.bad.accepted",
                                format!(
                                    "user lexicon with {name} was accepted ({} connector {nr}x{nl}, mapped={mapped})",
                                    ["matrix", "raw", "dual"][conn.clamp(0, 2) as usize]
                                ),
                            ))
                        }
                        Err(p) => {
                            return Err(panic_violation(
                                "C08.bad",
                                &format!("user lexicon with {name} (mapped={mapped})"),
                                &p,
                            ))
                        }
                    }
                    if mapped {
                        ctx.count("probe.bad_on_mapped");
                    } else {
                        ctx.count("probe.bad_on_unmapped");
                    }
                    // consumed by the failed call: restart from the sources with the current rows
                    let mut h = maps.clone();
                    if let Some(c) = &current {
                        h.push(HEvent::User(Some(c.clone())));
                    }
                    d = Some(rebuild("C08.restart", plan, order_seed, &h, ctx)?);
                    ctx.event(&op.brief(), &format!("Err ({name}); rebuilt"));
                }
                "Observe" => {
                    // (a) pristine replica F: sources + maps + only the current rows, loaded once
                    let mut h = maps.clone();
                    if let Some(c) = &current {
                        h.push(HEvent::User(Some(c.clone())));
                    }
                    let f = rebuild("C08.pristine", plan, order_seed, &h, ctx)?;
                    let (dd, od) = observe_or("C08", "observing the dictionary with history", d.take().unwrap(), &probes)?;
                    let (f, of) = observe_or("C08", "observing the pristine replica", f, &probes)?;
                    ctx.observations += 1;
                    if let Some(diff) = diff_obs(&of, &od, &probes) {
                        return Err(Violation::new(
                            "C08.history",
                            format!(
                                "after {loads} loads (current user lexicon: {}) the dictionary differs from one rebuilt with only the current rows: {diff}",
                                if current.is_some() { "some" } else { "none" }
                            ),
                        ));
                    }
                    drop(f);
                    // (c) lexicon types: User tokens only while a user lexicon is loaded
                    for per_opt in &od.tokens {
                        for toks in per_opt {
                            for t in toks {
                                if t.lex == 1 && current.is_none() {
                                    return Err(Violation::new(
                                        "C08.lextype",
                                        format!("a User token {} is reported although no user lexicon is loaded", t.brief()),
                                    ));
                                }
                            }
                        }
                    }
                    // (b) E: system lexicon extended by the current rows, same mapping
                    let mut files = plan.files.clone();
                    if let Some(c) = &current {
                        let mut lex = files.get("lex.csv").cloned().unwrap_or_default();
                        if !lex.is_empty() && !lex.ends_with(b"\n") {
                            lex.push(b'\n');
                        }
                        lex.extend_from_slice(c);
                        files.insert("lex.csv".into(), lex);
                    }
                    let mut e = build_plain("C08.extended", &files, conn, order_seed, ctx)?;
                    for m in &maps {
                        if let HEvent::Map(l, r) = m {
                            e = must("C08.extended.map", "mapping the extended dictionary", map_ids(e, l, r))?;
                        }
                    }
                    let mut dcur = dd;
                    for o in option_sets(has_space(&dcur)) {
                        let td = make_tokenizer(dcur, o);
                        let te = make_tokenizer(e, o);
                        for s in &probes {
                            let (cd, eos_d) = lattice_of("C08.lattice", &td, s)?;
                            let (ce, eos_e) = lattice_of("C08.lattice.extended", &te, s)?;
                            if cd != ce {
                                let only_d: Vec<&Cand> = cd.iter().filter(|x| !ce.contains(x)).take(3).collect();
                                let only_e: Vec<&Cand> = ce.iter().filter(|x| !cd.contains(x)).take(3).collect();
                                return Err(Violation::new(
                                    "C08.candidates",
                                    format!(
                                        "sentence {s:?}: candidates with a user lexicon differ from those of a system lexicon extended by the same rows; only with user lexicon: {only_d:?}; only with extended system lexicon: {only_e:?}"
                                    ),
                                ));
                            }
                            if eos_d != eos_e {
                                return Err(Violation::new(
                                    "C08.optimal_cost",
                                    format!("sentence {s:?}: optimal cost {eos_d:?} with a user lexicon, {eos_e:?} with the extended system lexicon"),
                                ));
                            }
                        }
                        dcur = td.verif_into_dictionary();
                        e = te.verif_into_dictionary();
                    }
                    d = Some(dcur);
                    if od.tokens.iter().flatten().flatten().any(|t| t.lex == 1) {
                        ctx.count("probe.user_token_reported");
                    }
                    ctx.event(&op.brief(), "equal to pristine replica and to extended system lexicon");
                }
                other => return Err(Violation::new("C08.plan", format!("unknown op {other}"))),
            }
        }
        match conn {
            0 => ctx.count("probe.conn_matrix"),
            1 => ctx.count("probe.conn_raw"),
            _ => ctx.count("probe.conn_dual"),
        }
        Ok(())
    }

    fn describe(&self) -> ScenarioInfo {
        ScenarioInfo {
            level: "exploration",
            rule: "one seeded run = a seeded dictionary (optionally mapped once or twice first) and a history of 3-9 events: Load(user CSV k) through benign-faulty readers, Clear, LoadBad(kind in {left id out of range, right id out of range, both, non-numeric, too few fields, invalid UTF-8, ids 65535, cost out of range}), LoadFail(reader hard error at a seeded offset) - both must return Err without panic, after which the dictionary is rebuilt from the sources - and Observe: (a) tokens and all connection costs equal to a pristine replica rebuilt with the same mapping and only the current rows, (b) per-position candidate multisets (lattice dump, lex type and word id excluded) and optimal cost incl. the EOS connection equal to a dictionary whose system lexicon is extended by the current rows, (c) no User token without a user lexicon. distinct_nontrivial = distinct plan hashes of runs with >= 1 observation after >= 1 load/clear",
            assumptions: vec![
                "token sequences are compared with the pristine replica only; against the extended system lexicon only candidates and optimal cost are compared (ties may legitimately be broken differently)",
            ],
            real: vec!["Dictionary::reset_user_lexicon_from_reader, Lexicon::{from_reader,verify,map_connection_ids}, tokenizer candidate generation, lattice"],
            stub: vec!["user CSV files (FaultyReader over memory)"],
            probes: vec![
                "probe.more_than_32768_id_pairs",
                "probe.id_65535_in_use",
                "probe.user_csv_over_64k",
                "probe.replace",
                "probe.write_read_with_user_lexicon",
                "probe.empty_file_over_user_lexicon",
                "probe.clear",
                "probe.clear_when_none",
                "probe.bad_on_mapped",
                "probe.bad_on_unmapped",
                "probe.user_token_reported",
                "probe.conn_matrix",
                "probe.conn_raw",
                "probe.conn_dual",
                "fault.short_transfer",
                "fault.interrupted",
                "fault.hard",
            ],
        }
    }
}
