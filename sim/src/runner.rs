//! Batch loop: seeded runs on all cores, smallest-failing-index verdict, determinism self-check,
//! watchdog, minimisation, replay file, evidence file, known findings.

use std::collections::{BTreeMap, BTreeSet, HashSet};
use std::io::Write;
use std::sync::atomic::{AtomicBool, AtomicU64, Ordering};
use std::sync::Mutex;
use std::time::{Duration, Instant};

use crate::core::{Ctx, Scenario, Tier, Violation};
use crate::json::J;
use crate::minimize::minimize;
use crate::plan::Plan;
use crate::rng::{run_seed, Rng};

/// Root of the verification tree: where known_findings.txt, known/, replays/, logs/ and evidence/
/// live. `./check` passes its own directory in VSIM_ROOT; /verif otherwise.
pub fn verif_root() -> String {
    std::env::var("VSIM_ROOT").ok().filter(|s| !s.is_empty()).unwrap_or_else(|| "/verif".to_string())
}
const HANG_SECS: u64 = 180;

#[derive(Default)]
pub struct BatchReport {
    pub runs: u64,
    pub events: u64,
    pub counters: BTreeMap<String, u64>,
    pub known: BTreeMap<String, u64>,
    pub nontrivial: HashSet<u64>,
    pub histories: HashSet<u64>,
    pub interleavings: HashSet<u64>,
    pub samples: Vec<J>,
    pub failures: Vec<(u64, Violation)>,
    pub reexecuted: u64,
    pub digest_mismatches: Vec<u64>,
    pub completed_ops: u64,
    pub total_ops: u64,
    /// Extra (enumerated) cases of `Scenario::extra`.
    pub extra_evaluations: u64,
    pub extra_distinct: u64,
    pub exhaustive: Option<bool>,
    pub extra: BTreeMap<String, J>,
    pub extra_failure: Option<(Plan, Violation)>,
    pub digests: Vec<(u64, u64)>,
}

impl BatchReport {
    fn merge(&mut self, o: BatchReport) {
        self.runs += o.runs;
        self.events += o.events;
        for (k, v) in o.counters {
            *self.counters.entry(k).or_insert(0) += v;
        }
        for (k, v) in o.known {
            *self.known.entry(k).or_insert(0) += v;
        }
        self.nontrivial.extend(o.nontrivial);
        self.histories.extend(o.histories);
        self.interleavings.extend(o.interleavings);
        self.samples.extend(o.samples);
        self.failures.extend(o.failures);
        self.reexecuted += o.reexecuted;
        self.digest_mismatches.extend(o.digest_mismatches);
        self.digests.extend(o.digests);
    }
    pub fn bump(&mut self, key: &str, n: u64) {
        *self.counters.entry(key.to_string()).or_insert(0) += n;
    }
}

pub struct Options {
    pub tier: Tier,
    pub seed: u64,
    pub threads: usize,
    pub runs_override: Option<u64>,
    pub out: Mutex<std::fs::File>,
    pub write_evidence: bool,
    /// Survey mode: run everything, tally violations by oracle, no minimisation (diagnostics only).
    pub survey: bool,
    /// Directory holding the summaries of the two-build exchange steps (embedded in the evidence).
    pub xsummary: Option<String>,
    /// A JSON object file whose keys are merged into the evidence's coverage (results of steps the
    /// wrapper ran outside this process, e.g. the Miri step of C04).
    pub extra_json: Option<String>,
    /// Write "run digest" lines (event-log digest of every run) to this file: determinism proof.
    pub digests_out: Option<String>,
}

impl Options {
    pub fn say(&self, line: &str) {
        let mut f = self.out.lock().unwrap();
        let _ = writeln!(f, "{line}");
        let _ = f.flush();
    }
}

/// Findings recorded in /verif/known_findings.txt.
#[derive(Default)]
pub struct KnownFindings {
    /// (property, id, witness path, description)
    pub known: Vec<(String, String, String, String)>,
}

impl KnownFindings {
    pub fn load() -> Self {
        let mut k = KnownFindings::default();
        let path = format!("{}/known_findings.txt", verif_root());
        if let Ok(text) = std::fs::read_to_string(path) {
            for line in text.lines() {
                let line = line.trim();
                if let Some(rest) = line.strip_prefix("known:") {
                    let (head, desc) = rest.split_once("::").unwrap_or((rest, ""));
                    let mut prop = String::new();
                    let mut id = String::new();
                    let mut wit = String::new();
                    for tok in head.split_whitespace() {
                        if let Some(v) = tok.strip_prefix("property=") {
                            prop = v.to_string();
                        } else if let Some(v) = tok.strip_prefix("id=") {
                            id = v.to_string();
                        } else if let Some(v) = tok.strip_prefix("witness=") {
                            wit = v.to_string();
                        }
                    }
                    if !prop.is_empty() && !id.is_empty() {
                        k.known.push((prop, id, wit, desc.trim().to_string()));
                    }
                }
            }
        }
        k
    }
    pub fn listed_for(&self, prop: &str) -> BTreeSet<String> {
        self.known
            .iter()
            .filter(|(p, ..)| p == prop)
            .map(|(_, id, ..)| id.clone())
            .collect()
    }
}

fn execute_one(
    scen: &dyn Scenario,
    tier: Tier,
    seed: u64,
    run: u64,
    listed: &BTreeSet<String>,
    keep_log: bool,
) -> (Plan, Ctx, Result<(), Violation>) {
    let mut rng = Rng::new(run_seed(seed, scen.id(), run));
    let plan = scen.plan(&mut rng, tier, seed, run);
    let mut ctx = Ctx::new(keep_log);
    ctx.listed_known = listed.clone();
    let r = crate::core::run_plan(scen, &plan, &mut ctx);
    (plan, ctx, r)
}

pub fn replay_dir(prop: &str) -> String {
    let d = format!("{}/replays/{prop}", verif_root());
    let _ = std::fs::create_dir_all(&d);
    d
}

pub fn write_replay(prop: &str, name: &str, plan: &Plan, v: &Violation, log: &[String]) -> String {
    let path = format!("{}/{name}.json", replay_dir(prop));
    let j = J::obj()
        .set("format", J::s("vsim-replay-1"))
        .set("violation", J::obj().set("oracle", J::s(&v.oracle)).set("detail", J::s(&v.detail)))
        .set("event_log", J::arr_s(log))
        .set("plan", plan.to_json());
    let _ = std::fs::write(&path, j.to_string_pretty());
    path
}

pub fn load_replay(path: &str) -> Result<(Plan, Option<String>), String> {
    let text = std::fs::read_to_string(path).map_err(|e| format!("{path}: {e}"))?;
    let j = crate::json::parse(&text)?;
    let plan = Plan::from_json(j.get("plan").unwrap_or(&j))?;
    let oracle = j
        .get("violation")
        .and_then(|v| v.get("oracle"))
        .and_then(|x| x.as_str())
        .map(|s| s.to_string());
    Ok((plan, oracle))
}

/// Replay file of a violation of the enumeration step that left no plan behind (the process died):
/// replaying it runs the enumeration step again.
pub fn write_extra_only_replay(prop: &str, seed: u64, tier: Tier, v: &Violation) -> String {
    let path = format!("{}/{seed}-enum-abort.json", replay_dir(prop));
    let j = J::obj()
        .set("format", J::s("vsim-replay-1"))
        .set("extra_only", J::i(1))
        .set("property", J::s(prop))
        .set("seed", J::s(&seed.to_string()))
        .set("tier", J::s(tier.name()))
        .set("violation", J::obj().set("oracle", J::s(&v.oracle)).set("detail", J::s(&v.detail)));
    let _ = std::fs::write(&path, j.to_string_pretty());
    path
}

/// Executes one run of the batch in this process (used by the supervisor to find the run that
/// kills the process). A violation is reported unminimised.
pub fn exec_run(scen: &dyn Scenario, run: u64, opts: &Options) -> i32 {
    let prop = scen.id();
    let listed = KnownFindings::load().listed_for(prop);
    let (plan, ctx, r) = execute_one(scen, opts.tier, opts.seed, run, &listed, true);
    match r {
        Ok(()) => 0,
        Err(v) => {
            opts.say(&format!("violation in run {run}: oracle={} detail={}", v.oracle, v.detail));
            opts.say("NOTE: not minimised (the simulator process died while this run was being minimised)");
            let path = write_replay(prop, &format!("{}-{run}-full", opts.seed), &plan, &v, ctx.log.as_deref().unwrap_or(&[]));
            opts.say(&format!("VIOLATION property={prop} replay={path}"));
            1
        }
    }
}

/// Runs the enumeration step alone.
pub fn extra_only(scen: &dyn Scenario, opts: &Options) -> i32 {
    let prop = scen.id();
    let listed = KnownFindings::load().listed_for(prop);
    let mut rep = BatchReport::default();
    crate::supervise::set(0, crate::supervise::EXTRA);
    scen.extra(opts.tier, opts.seed, &mut rep);
    let st = match rep.extra_failure.take() {
        Some((plan, v)) => finish_violation(scen, opts, &listed, &plan, &v, &format!("{}-enum", opts.seed)),
        None => {
            opts.say("REPLAY-PASSES");
            0
        }
    };
    crate::supervise::set(0, crate::supervise::NONE);
    st
}

/// Replays a file: exit status 1 (and a VIOLATION line) iff it fails again.
pub fn replay(scen: &dyn Scenario, path: &str, opts: &Options) -> i32 {
    if std::fs::read_to_string(path).is_ok_and(|t| t.contains("\"extra_only\"")) {
        return extra_only(scen, opts);
    }
    let (plan, oracle) = match load_replay(path) {
        Ok(x) => x,
        Err(e) => {
            opts.say(&format!("HARNESS-ERROR: cannot load replay: {e}"));
            return 2;
        }
    };
    let listed = KnownFindings::load().listed_for(scen.id());
    let mut ctx = Ctx::new(true);
    ctx.listed_known = listed;
    let r = crate::core::run_plan(scen, &plan, &mut ctx);
    for l in ctx.log.as_deref().unwrap_or(&[]) {
        opts.say(&format!("  {l}"));
    }
    match r {
        Err(v) => {
            opts.say(&format!("REPLAY-FAILS oracle={} detail={}", v.oracle, v.detail));
            if let Some(o) = oracle {
                if o != v.oracle {
                    opts.say(&format!("NOTE: recorded oracle was {o}"));
                }
            }
            opts.say(&format!("VIOLATION property={} replay={}", scen.id(), path));
            1
        }
        Ok(()) => {
            for (id, n) in &ctx.known {
                opts.say(&format!("REPLAY-KNOWN-FINDING id={id} hits={n}"));
            }
            opts.say("REPLAY-PASSES");
            0
        }
    }
}

pub fn run_batch(scen: &dyn Scenario, opts: &Options) -> i32 {
    let t0 = Instant::now();
    let prop = scen.id();
    let tier = opts.tier;
    let seed = opts.seed;
    let n_runs = opts.runs_override.unwrap_or_else(|| scen.runs(tier));
    let kf = KnownFindings::load();
    let listed = kf.listed_for(prop);
    opts.say(&format!(
        "vsim property={prop} tier={} seed={seed} runs={n_runs} threads={}",
        tier.name(),
        opts.threads
    ));

    let next = AtomicU64::new(0);
    let min_fail = AtomicU64::new(u64::MAX);
    let done = AtomicBool::new(false);
    let slots: Vec<AtomicU64> = (0..opts.threads).map(|_| AtomicU64::new(0)).collect();
    let total = Mutex::new(BatchReport::default());

    std::thread::scope(|sc| {
        // watchdog: the only wall-clock read that can influence a verdict, and only by turning a
        // hang into a report
        sc.spawn(|| {
            let mut last: Vec<(u64, Instant)> = slots.iter().map(|_| (0, Instant::now())).collect();
            while !done.load(Ordering::Relaxed) {
                std::thread::sleep(Duration::from_millis(250));
                for (i, s) in slots.iter().enumerate() {
                    let cur = s.load(Ordering::Relaxed);
                    if cur != last[i].0 {
                        last[i] = (cur, Instant::now());
                    } else if cur != 0 && last[i].1.elapsed() > Duration::from_secs(HANG_SECS) {
                        let run = cur - 1;
                        let mut rng = Rng::new(run_seed(seed, prop, run));
                        let plan = scen.plan(&mut rng, tier, seed, run);
                        let v = Violation::new(
                            "non-termination",
                            format!("run {run} did not finish within {HANG_SECS} s"),
                        );
                        let path = write_replay(prop, &format!("{seed}-{run}-hang"), &plan, &v, &[]);
                        opts.say(&format!("VIOLATION property={prop} replay={path}"));
                        std::process::exit(1);
                    }
                }
            }
        });
        let mut handles = vec![];
        for (ti, slot) in slots.iter().take(opts.threads).enumerate() {
            let listed = &listed;
            let next = &next;
            let min_fail = &min_fail;
            handles.push(sc.spawn(move || {
                let mut rep = BatchReport::default();
                loop {
                    let run = next.fetch_add(1, Ordering::Relaxed);
                    if run >= n_runs {
                        break;
                    }
                    if !opts.survey && run > min_fail.load(Ordering::Relaxed) {
                        continue;
                    }
                    slot.store(run + 1, Ordering::Relaxed);
                    crate::supervise::set(ti + 1, run);
                    let (plan, ctx, r) = execute_one(scen, tier, seed, run, listed, false);
                    rep.runs += 1;
                    rep.events += ctx.seq;
                    if opts.digests_out.is_some() {
                        rep.digests.push((run, ctx.digest() ^ u64::from(r.is_err())));
                    }
                    for (k, v) in &ctx.counters {
                        *rep.counters.entry((*k).to_string()).or_insert(0) += v;
                    }
                    for (k, v) in &ctx.known {
                        *rep.known.entry(k.clone()).or_insert(0) += v;
                    }
                    rep.histories.insert(plan.history_hash());
                    if plan.ops.iter().any(|o| o.task != 0) {
                        rep.interleavings.insert(plan.interleaving_hash());
                    }
                    if scen.nontrivial(&plan, &ctx) {
                        rep.nontrivial.insert(plan.hash());
                    }
                    if run < 3 {
                        rep.samples.push(plan.brief());
                    }
                    if let Err(v) = r {
                        min_fail.fetch_min(run, Ordering::Relaxed);
                        rep.failures.push((run, v));
                    } else if run % 97 == 0 {
                        // determinism self-check: re-execute and compare event-log digests
                        let (_, ctx2, r2) = execute_one(scen, tier, seed, run, listed, false);
                        rep.reexecuted += 1;
                        if ctx2.digest() != ctx.digest() || r2.is_err() {
                            rep.digest_mismatches.push(run);
                        }
                    }
                    slot.store(0, Ordering::Relaxed);
                    crate::supervise::set(ti + 1, crate::supervise::NONE);
                }
                rep
            }));
        }
        for h in handles {
            match h.join() {
                Ok(rep) => total.lock().unwrap().merge(rep),
                Err(_) => {
                    opts.say("HARNESS-ERROR: a worker thread panicked outside a guarded call");
                    std::process::exit(2);
                }
            }
        }
        done.store(true, Ordering::Relaxed);
    });
    let mut rep = total.into_inner().unwrap();
    if let Some(path) = &opts.digests_out {
        rep.digests.sort_unstable();
        let mut t = String::new();
        for (r, d) in &rep.digests {
            t.push_str(&format!("{r} {d:016x}\n"));
        }
        let _ = std::fs::write(path, t);
    }
    rep.samples.sort_by_key(|j| j.get("run").and_then(|x| x.as_i64()).unwrap_or(0));

    if !rep.digest_mismatches.is_empty() {
        rep.digest_mismatches.sort_unstable();
        opts.say(&format!(
            "HARNESS-ERROR: nondeterministic execution (event-log digest differs on re-execution) for runs {:?}",
            &rep.digest_mismatches[..rep.digest_mismatches.len().min(8)]
        ));
        return 2;
    }

    let mut status = 0;
    let mut violations = 0;
    rep.failures.sort_by_key(|(r, _)| *r);
    if opts.survey {
        let mut tally: BTreeMap<String, (u64, u64, String)> = BTreeMap::new();
        for (run, v) in &rep.failures {
            let e = tally.entry(v.oracle.clone()).or_insert((0, *run, v.detail.clone()));
            e.0 += 1;
        }
        for (o, (n, run, detail)) in &tally {
            opts.say(&format!("SURVEY {n:>7} x {o}  (first run {run}) {}", detail.chars().take(300).collect::<String>()));
        }
        opts.say(&format!("SURVEY total failing runs {} of {}", rep.failures.len(), rep.runs));
        return if rep.failures.is_empty() { 0 } else { 1 };
    }
    if let Some((run, v)) = rep.failures.first().cloned() {
        violations = 1;
        crate::supervise::set(0, run);
        status = report_violation(scen, opts, &listed, seed, run, &v);
        crate::supervise::set(0, crate::supervise::NONE);
    } else {
        // enumerated extras only when the seeded part is clean
        crate::supervise::set(0, crate::supervise::EXTRA);
        scen.extra(tier, seed, &mut rep);
        if let Some((plan, v)) = rep.extra_failure.take() {
            violations = 1;
            status = finish_violation(scen, opts, &listed, &plan, &v, &format!("{seed}-enum"));
        }
        crate::supervise::set(0, crate::supervise::NONE);
    }

    // known findings: print a line per listed finding whose stored witness still fails
    if status == 0 {
        for (p, id, wit, desc) in &kf.known {
            if p != prop {
                continue;
            }
            let path = format!("{}/{wit}", verif_root());
            match load_replay(&path) {
                Ok((plan, _)) => {
                    let mut ctx = Ctx::new(false);
                    ctx.listed_known = listed.clone();
                    let r = crate::core::run_plan(scen, &plan, &mut ctx);
                    if r.is_ok() && ctx.known.get(id).copied().unwrap_or(0) > 0 {
                        opts.say(&format!(
                            "KNOWN-FINDING: property={prop} {id} {desc} (witness {wit} still fails; {} matching tokenizations in this batch)",
                            rep.known.get(id).copied().unwrap_or(0)
                        ));
                    } else if let Err(v) = r {
                        opts.say(&format!(
                            "HARNESS-ERROR: witness {wit} of {id} fails a different oracle: {} {}",
                            v.oracle, v.detail
                        ));
                        status = 2;
                    } else {
                        opts.say(&format!(
                            "NOTE: witness {wit} of {id} no longer fails (finding appears fixed)"
                        ));
                    }
                }
                Err(e) => {
                    opts.say(&format!("HARNESS-ERROR: cannot load witness of {id}: {e}"));
                    status = 2;
                }
            }
        }
    }

    if let Some(dir) = &opts.xsummary {
        let mut v = vec![];
        let mut total = 0;
        if let Ok(rd) = std::fs::read_dir(dir) {
            let mut names: Vec<_> = rd.filter_map(|e| e.ok()).map(|e| e.path()).collect();
            names.sort();
            for pth in names {
                let is_summary = pth
                    .file_name()
                    .and_then(|n| n.to_str())
                    .is_some_and(|n| n.starts_with("summary-") && n.ends_with(".json"));
                if is_summary {
                    if let Ok(j) = std::fs::read_to_string(&pth).map_err(|e| e.to_string()).and_then(|t| crate::json::parse(&t)) {
                        total += j.get("dictionaries_exchanged").and_then(|x| x.as_i64()).unwrap_or(0);
                        v.push(j);
                    }
                }
            }
        }
        rep.extra_evaluations += total as u64;
        rep.extra_distinct += total as u64;
        rep.extra.insert("cross_build_exchange".into(), J::Arr(v));
    }
    if let Some(path) = &opts.extra_json {
        if let Ok(J::Obj(m)) = std::fs::read_to_string(path).map_err(|e| e.to_string()).and_then(|t| crate::json::parse(&t)) {
            for (k, v) in m {
                rep.extra.insert(k, v);
            }
        }
    }
    let wall = t0.elapsed().as_secs_f64();
    if opts.write_evidence && status != 2 {
        write_evidence(scen, opts, &rep, wall, violations);
    }
    let info = scen.describe();
    let zero: Vec<&str> = info
        .probes
        .iter()
        .filter(|p| rep.counters.get(**p).copied().unwrap_or(0) == 0)
        .copied()
        .collect();
    opts.say(&format!(
        "done property={prop} runs={} events={} distinct_nontrivial={} faults_fired={} wall_s={:.1} probes_at_zero={:?} status={status}",
        rep.runs,
        rep.events,
        rep.nontrivial.len() as u64 + rep.extra_distinct,
        rep.counters
            .iter()
            .filter(|(k, _)| k.starts_with("fault."))
            .map(|(_, v)| *v)
            .sum::<u64>(),
        wall,
        zero
    ));
    status
}

fn report_violation(
    scen: &dyn Scenario,
    opts: &Options,
    listed: &BTreeSet<String>,
    seed: u64,
    run: u64,
    v: &Violation,
) -> i32 {
    let mut rng = Rng::new(run_seed(seed, scen.id(), run));
    let plan = scen.plan(&mut rng, opts.tier, seed, run);
    opts.say(&format!(
        "violation in run {run}: oracle={} detail={}",
        v.oracle, v.detail
    ));
    finish_violation(scen, opts, listed, &plan, v, &format!("{seed}-{run}"))
}

fn finish_violation(
    scen: &dyn Scenario,
    opts: &Options,
    listed: &BTreeSet<String>,
    plan: &Plan,
    v: &Violation,
    name: &str,
) -> i32 {
    let prop = scen.id();
    let (min_plan, st) = minimize(scen, plan, &v.oracle, listed, 3000);
    // final execution of the minimised plan, with the event log
    let mut ctx = Ctx::new(true);
    ctx.listed_known = listed.clone();
    let v2 = match crate::core::run_plan(scen, &min_plan, &mut ctx) {
        Err(v2) => v2,
        Ok(()) => {
            opts.say("HARNESS-ERROR: minimised plan does not fail");
            return 2;
        }
    };
    let log = ctx.log.unwrap_or_default();
    let path = write_replay(prop, name, &min_plan, &v2, &log);
    let full = write_replay(prop, &format!("{name}-full"), plan, v, &[]);
    opts.say(&format!(
        "minimised: {} ops -> {} ops, {} attempts; unminimised plan: {full}",
        plan.ops.len(),
        min_plan.ops.len(),
        st.attempts
    ));
    opts.say(&format!("  oracle={} detail={}", v2.oracle, v2.detail));
    // the replay file must fail identically in a fresh process
    let exe = std::env::current_exe().ok();
    let fresh = exe.and_then(|e| {
        std::process::Command::new(e)
            .args(["--property", prop, "--replay", &path, "--quiet"])
            .output()
            .ok()
    });
    match fresh {
        Some(o) if o.status.code() == Some(1) => {
            let out = String::from_utf8_lossy(&o.stdout);
            if !out.contains(&format!("oracle={}", v2.oracle)) {
                opts.say("HARNESS-ERROR: fresh-process replay fails with a different oracle");
                return 2;
            }
        }
        Some(o) if o.status.code().is_none() => {
            // the minimised plan takes the whole process down: the supervised replay reports it
            opts.say("NOTE: the fresh-process replay of the minimised plan died (signal): replaying the file reports <property>.process_abort");
        }
        Some(o) => {
            opts.say(&format!(
                "HARNESS-ERROR: unreproducible: fresh-process replay exited with {:?}",
                o.status.code()
            ));
            return 2;
        }
        None => {
            opts.say("HARNESS-ERROR: cannot spawn fresh-process replay");
            return 2;
        }
    }
    opts.say(&format!("VIOLATION property={prop} replay={path}"));
    1
}

fn write_evidence(scen: &dyn Scenario, opts: &Options, rep: &BatchReport, wall: f64, violations: u64) {
    let info = scen.describe();
    let prop = scen.id();
    let mut faults = J::obj();
    let mut probes = J::obj();
    let mut other = J::obj();
    for (k, v) in &rep.counters {
        if let Some(n) = k.strip_prefix("fault.") {
            faults.put(n, J::i(*v));
        } else if let Some(n) = k.strip_prefix("probe.") {
            probes.put(n, J::i(*v));
        } else {
            other.put(k, J::i(*v));
        }
    }
    let zero: Vec<&str> = info
        .probes
        .iter()
        .filter(|p| rep.counters.get(**p).copied().unwrap_or(0) == 0)
        .copied()
        .collect();
    let evaluations = rep.runs + rep.extra_evaluations;
    let distinct = rep.nontrivial.len() as u64 + rep.extra_distinct;
    let mut cov = J::obj()
        .set("evaluations", J::i(evaluations))
        .set("distinct_nontrivial", J::i(distinct))
        .set("rule", J::s(info.rule))
        .set("samples", J::Arr(rep.samples.clone()))
        .set("seeded_runs", J::i(rep.runs))
        .set("events", J::i(rep.events))
        .set(
            "runs_per_hour",
            J::i(if wall > 0.0 {
                (rep.runs as f64 / wall * 3600.0) as u64
            } else {
                0
            }),
        )
        .set(
            "simulated_time",
            J::s("n/a - vibrato has no clock or timer; the unit of time is the global event sequence number"),
        )
        .set("faults_fired", faults)
        .set("probes", probes)
        .set("probes_at_zero", J::arr_s(&zero))
        .set("counters", other)
        .set("distinct_histories", J::i(rep.histories.len()))
        .set(
            "distinct_interleavings",
            if rep.interleavings.is_empty() {
                J::s("n/a - one simulated task per run in this scenario (the history order is the only schedule)")
            } else {
                J::i(rep.interleavings.len())
            },
        )
        .set(
            "determinism_selfcheck",
            J::obj()
                .set("runs_reexecuted", J::i(rep.reexecuted))
                .set("digest_mismatches", J::i(rep.digest_mismatches.len())),
        )
        .set(
            "components",
            J::obj()
                .set("real", J::arr_s(&info.real))
                .set("stub", J::arr_s(&info.stub)),
        )
        .set(
            "known_finding_hits",
            J::Obj(rep.known.iter().map(|(k, v)| (k.clone(), J::i(*v))).collect()),
        );
    if let Some(e) = rep.exhaustive {
        cov.put("exhaustive", J::Bool(e));
    }
    for (k, v) in &rep.extra {
        cov.put(k, v.clone());
    }
    let j = J::obj()
        .set("property_id", J::s(prop))
        .set("tier", J::s(opts.tier.name()))
        .set("seed", J::i(opts.seed))
        .set("level", J::s(info.level))
        .set("coverage", cov)
        .set("assumptions", J::arr_s(&info.assumptions))
        .set("wall_s", J::Num((wall * 1000.0).round() / 1000.0))
        .set("violations", J::i(violations));
    let dir = format!("{}/evidence", verif_root());
    let _ = std::fs::create_dir_all(&dir);
    let path = format!("{dir}/{prop}.json");
    if let Err(e) = std::fs::write(&path, j.to_string_pretty()) {
        opts.say(&format!("HARNESS-ERROR: cannot write {path}: {e}"));
    }
}
