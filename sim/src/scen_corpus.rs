//! C19 — the corpus text format round-trips and accepts the tokenizer's output.
//! Dimension: `Example::write`'s internal BufWriter over a caller sink; `Corpus::from_reader` over a
//! caller reader. Fault-free: parse -> write each example -> bytes == canonical re-serialisation ->
//! re-parse equal; malformed lines are errors; the mirrored tokenize loop's output parses to the
//! tokenizer's tokens. Faulty: benign faults change nothing, reader hard errors give Err, a sink
//! hard error at any offset makes `Example::write` return Err.

use vibrato::trainer::Corpus;

use crate::core::{catch, panic_violation, Check, Ctx, Scenario, ScenarioInfo, Tier, Violation};
use crate::io::{gen_benign, FaultyReader, FaultySink};
use crate::obs::{make_tokenizer, option_sets, read_tokens};
use crate::plan::{Fault, Op, Plan};
use crate::rng::Rng;
use crate::scen_image::reference_dict;
use crate::world::{gen_sentence, gen_user_csv, gen_world, WorldCfg, ALPHABET};

pub struct CorpusScenario;

type Sent = Vec<(String, String)>;

fn gen_feature(rng: &mut Rng) -> String {
    match rng.below(6) {
        0 => "*".to_string(),
        1 => "名詞,\"q,uo\"\"ted\",*".to_string(),
        2 => String::new(),
        3 => "EOS".to_string(),
        _ => format!("P{},S{}", rng.below(4), rng.below(4)),
    }
}

fn gen_surface(rng: &mut Rng) -> String {
    match rng.below(14) {
        0 => "EOS".to_string(),
        1 => " ".to_string(),
        // characters that text tools like to strip: U+FEFF (BOM / zero-width no-break space) at
        // the start or the end of a surface, U+0085, U+2028
        2 if rng.chance(1, 2) => match rng.below(4) {
            0 => "\u{feff}".to_string(),
            1 => format!("\u{feff}{}", rng.pick(ALPHABET)),
            2 => format!("{}\u{feff}", rng.pick(ALPHABET)),
            _ => format!("a{}b", rng.pick(&['\u{85}', '\u{2028}', '\u{b}', '\u{c}'])),
        },
        // characters that other corpus formats give a meaning: '#' (comment lines), U+FFFD (the
        // replacement character of lossy decoders), '*' and ';' at the start of a surface
        3 if rng.chance(1, 2) => match rng.below(4) {
            0 => format!("#{}", rng.pick(ALPHABET)),
            1 => "# S-ID:1".to_string(),
            2 => format!("{}\u{fffd}", rng.pick(ALPHABET)),
            _ => format!("{}x", rng.pick(&['*', ';', '%'])),
        },
        // an empty surface (a sentence whose surfaces are all empty has no text and is dropped)
        12 | 13 => String::new(),
        _ => {
            let n = 1 + rng.usize(4);
            (0..n).map(|_| *rng.pick(ALPHABET)).collect()
        }
    }
}

/// Reference parser of the documented format; None = malformed.
fn reference_parse(text: &str) -> Option<Vec<Sent>> {
    let mut out = vec![];
    let mut cur: Sent = vec![];
    for line in text.lines() {
        let parts: Vec<&str> = line.split('\t').collect();
        match parts.len() {
            2 => cur.push((parts[0].to_string(), parts[1].to_string())),
            1 if parts[0] == "EOS" => {
                let joined: String = cur.iter().map(|t| t.0.as_str()).collect();
                if !joined.is_empty() {
                    out.push(std::mem::take(&mut cur));
                } else {
                    cur.clear();
                }
            }
            _ => return None,
        }
    }
    Some(out)
}

fn serialise(sents: &[Sent]) -> Vec<u8> {
    let mut s = String::new();
    for sent in sents {
        for (a, b) in sent {
            s.push_str(&format!("{a}\t{b}\n"));
        }
        s.push_str("EOS\n");
    }
    s.into_bytes()
}

fn parse_with(data: &[u8], f: &Fault, ctx: &mut Ctx) -> Result<Result<Vec<Sent>, String>, crate::core::PanicInfo> {
    let mut rdr = FaultyReader::new(data, f);
    let r = catch(|| {
        Corpus::from_reader(&mut rdr)
            .map(|c| {
                c.iter()
                    .map(|e| {
                        e.tokens()
                            .iter()
                            .map(|w| (w.surface().to_string(), w.feature().to_string()))
                            .collect::<Sent>()
                    })
                    .collect::<Vec<Sent>>()
            })
            .map_err(|e| e.to_string())
    });
    ctx.fired(&rdr.fired);
    r
}

impl Scenario for CorpusScenario {
    fn id(&self) -> &'static str {
        "C19"
    }
    fn runs(&self, tier: Tier) -> u64 {
        match tier {
            Tier::Quick => 600_000,
            Tier::Thorough => 20_000_000,
        }
    }
    fn plan(&self, rng: &mut Rng, _tier: Tier, seed: u64, run: u64) -> Plan {
        let mut plan = Plan::new("C19", seed, run);
        // a seeded corpus in the documented format
        let n_sent = rng.usize(6);
        let mut text = String::new();
        for _ in 0..n_sent {
            let n_tok = match rng.below(8) {
                0 => 0, // token-less sentence
                _ => 1 + rng.usize(5),
            };
            let textless = rng.chance(1, 10); // tokens, but no text: dropped like a token-less one
            for _ in 0..n_tok {
                let surface = if textless { String::new() } else { gen_surface(rng) };
                let mut feature = gen_feature(rng);
                if rng.chance(1, 400) {
                    // a line around the sizes of I/O buffers (8 KiB, 16 KiB, 64 KiB) or well beyond
                    let target = match rng.below(4) {
                        0 => 8192 + rng.range(-3, 3),
                        1 => 16384 + rng.range(-3, 3),
                        2 => 65536 + rng.range(-3, 3),
                        _ => rng.range(8000, 40000),
                    } as usize;
                    let have = surface.len() + 1 + feature.len();
                    if target > have {
                        let pad = if rng.chance(1, 2) { "長" } else { "x" };
                        while surface.len() + 1 + feature.len() + pad.len() <= target {
                            feature.push_str(pad);
                        }
                        while surface.len() + 1 + feature.len() < target {
                            feature.push('y');
                        }
                    }
                }
                text.push_str(&format!("{}\t{}\n", surface, feature));
            }
            text.push_str("EOS\n");
        }
        if text.ends_with('\n') && rng.chance(1, 5) {
            text.pop(); // no trailing newline
        }
        plan.set_file("corpus.txt", text);
        plan.ops.push(
            Op::new("RoundTrip")
                .fault("src", gen_benign(rng, 256))
                .fault("sink", gen_benign(rng, 64)),
        );
        for _ in 0..rng.usize(4) {
            plan.ops.push(
                Op::new("WriteFault").n(&[
                    rng.range(0, 5),
                    rng.range(0, (1 << 32) - 1),
                    *rng.pick(&[0i64, 1, 2]),
                    *rng.pick(&[0i64, 0, 1, 2, 3]),
                ]),
            );
        }
        if rng.chance(1, 2) {
            plan.ops.push(Op::new("ReadFault").n(&[rng.range(0, (1 << 32) - 1), *rng.pick(&[0i64, 1, 3])]));
        }
        if rng.chance(1, 2) {
            plan.ops.push(Op::new("Malformed").n(&[rng.range(0, 4), rng.range(0, 1 << 20)]));
        }
        // tokenizer output (one run in four: needs a dictionary)
        if rng.chance(1, 4) {
            let info = gen_world(rng, &mut plan, &WorldCfg::default());
            if rng.chance(1, 3) {
                plan.set_file("user.csv", gen_user_csv(&mut rng.fork(), &info, "U"));
            }
            let opts = option_sets(info.has_space);
            plan.set_param("opt", rng.usize(opts.len()) as i64);
            let mut sents = vec![];
            for _ in 0..1 + rng.usize(5) {
                sents.push(gen_sentence(rng, &info.surfaces));
            }
            plan.set_file("sentences", sents.join("\n"));
            plan.ops.push(Op::new("TokenizerOutput").fault("src", gen_benign(rng, 256)));
        }
        plan
    }

    fn execute(&self, plan: &Plan, ctx: &mut Ctx) -> Check {
        let text = plan.file_str("corpus.txt");
        let none = Fault::default();
        let reference = reference_parse(&text);
        for op in &plan.ops {
            match op.kind.as_str() {
                "RoundTrip" => {
                    let parsed = parse_with(text.as_bytes(), &op.get_fault("src"), ctx)
                        .map_err(|p| panic_violation("C19.parse", "Corpus::from_reader", &p))?;
                    let Some(reference) = reference.as_ref() else {
                        // a minimised/edited plan may hold a malformed corpus: it must be an error
                        if parsed.is_ok() {
                            return Err(Violation::new("C19.malformed.accepted", "a corpus the reference grammar rejects was accepted"));
                        }
                        continue;
                    };
                    let parsed = parsed.map_err(|e| Violation::new("C19.parse.err", format!("a corpus in the documented format was rejected: {e}")))?;
                    if &parsed != reference {
                        return Err(Violation::new(
                            "C19.parse.examples",
                            format!("parsed examples {parsed:?} differ from the reference reading {reference:?}"),
                        ));
                    }
                    if text.lines().any(|l| l == "EOS") && parsed.len() < text.lines().filter(|l| *l == "EOS").count() {
                        ctx.count("probe.tokenless_sentence_dropped");
                    }
                    if text.lines().any(|l| l.len() >= 8192) {
                        ctx.count("probe.line_of_8192_bytes_or_more");
                    }
                    // write each example back through a (benignly faulty) sink
                    let corpus = catch(|| Corpus::from_reader(text.as_bytes()))
                        .map_err(|p| panic_violation("C19.parse", "Corpus::from_reader", &p))?
                        .map_err(|e| Violation::new("C19.parse.err", e.to_string()))?;
                    let mut written = vec![];
                    for (i, ex) in corpus.iter().enumerate() {
                        let f = op.get_fault("sink");
                        let mut sink = FaultySink::new(&f);
                        let r = catch(|| ex.write(crate::io::hand(&mut sink)).map_err(|e| e.to_string()));
                        ctx.fired(&sink.fired);
                        match r {
                            Ok(Ok(())) => written.extend_from_slice(&sink.data),
                            Ok(Err(e)) => return Err(Violation::new("C19.write.err", format!("Example::write of example {i} failed under benign faults: {e}"))),
                            Err(p) => return Err(panic_violation("C19.write", "Example::write", &p)),
                        }
                    }
                    let canonical = serialise(reference);
                    if written != canonical {
                        return Err(Violation::new(
                            "C19.write.bytes",
                            format!(
                                "examples written back are {:?}, expected {:?}",
                                String::from_utf8_lossy(&written),
                                String::from_utf8_lossy(&canonical)
                            ),
                        ));
                    }
                    let again = parse_with(&written, &none, ctx)
                        .map_err(|p| panic_violation("C19.reparse", "Corpus::from_reader", &p))?
                        .map_err(|e| Violation::new("C19.reparse.err", format!("the written corpus does not parse: {e}")))?;
                    if &again != reference {
                        return Err(Violation::new("C19.reparse.examples", "re-parsing the written corpus gives different examples"));
                    }
                    ctx.observations += 1;
                    ctx.state_changes += 1;
                    ctx.event("round trip", &format!("{} examples", reference.len()));
                }
                "WriteFault" => {
                    let Some(reference) = reference.as_ref() else { continue };
                    if reference.is_empty() {
                        continue;
                    }
                    let corpus = catch(|| Corpus::from_reader(text.as_bytes()))
                        .map_err(|p| panic_violation("C19.parse", "Corpus::from_reader", &p))?
                        .map_err(|e| Violation::new("C19.parse.err", e.to_string()))?;
                    let i = (op.num(0) as usize) % corpus.len().max(1);
                    let Some(ex) = corpus.get(i) else { continue };
                    let len = serialise(&reference[i..=i]).len();
                    let k = ((op.num(1) as u128 * len as u128) >> 32) as u64;
                    let f = Fault {
                        hard_at: Some(k.min(len as u64 - 1)),
                        hard_kind: op.num(2) as u8,
                        wrap: op.num(3).clamp(0, 3) as u8,
                        ..Default::default()
                    };
                    let mut sink = FaultySink::new(&f);
                    let r = catch(|| ex.write(crate::io::hand(&mut sink)).map_err(|e| e.to_string()));
                    ctx.fired(&sink.fired);
                    ctx.observations += 1;
                    match r {
                        Ok(Err(_)) => ctx.event(&op.brief(), "Err"),
                        Ok(Ok(())) => {
                            return Err(Violation::new(
                                "C19.write_fault.ok",
                                format!(
                                    "Example::write returned Ok although the sink failed at byte {k} of {len}: {} of {len} bytes reached it",
                                    sink.data.len()
                                ),
                            ))
                        }
                        Err(p) => return Err(panic_violation("C19.write_fault", &op.brief(), &p)),
                    }
                }
                "ReadFault" => {
                    if text.is_empty() {
                        continue;
                    }
                    let len = text.len();
                    let k = ((op.num(0) as u128 * len as u128) >> 32) as u64;
                    let f = Fault {
                        hard_at: Some(k.min(len as u64 - 1)),
                        hard_kind: op.num(1) as u8,
                        ..Default::default()
                    };
                    let r = parse_with(text.as_bytes(), &f, ctx)
                        .map_err(|p| panic_violation("C19.read_fault", &op.brief(), &p))?;
                    ctx.observations += 1;
                    if r.is_ok() {
                        return Err(Violation::new(
                            "C19.read_fault.ok",
                            format!("Corpus::from_reader returned Ok although the reader failed at byte {k} of {len}"),
                        ));
                    }
                    ctx.event(&op.brief(), "Err");
                }
                "Malformed" => {
                    let bad = match op.num(0) {
                        0 => "no tab here",
                        1 => "two\ttabs\there",
                        2 => "",
                        3 => "EOS ",
                        _ => "eos",
                    };
                    let mut lines: Vec<&str> = text.lines().collect();
                    let at = (op.num(1) as usize) % (lines.len() + 1);
                    lines.insert(at, bad);
                    let t = lines.join("\n") + "\n";
                    let r = parse_with(t.as_bytes(), &none, ctx)
                        .map_err(|p| panic_violation("C19.malformed", &format!("line {bad:?}"), &p))?;
                    ctx.observations += 1;
                    if r.is_ok() {
                        return Err(Violation::new(
                            "C19.malformed.accepted",
                            format!("a corpus with the malformed line {bad:?} (line {at}) was accepted"),
                        ));
                    }
                    ctx.count("probe.malformed_rejected");
                    ctx.event(&op.brief(), "Err");
                }
                "TokenizerOutput" => {
                    let dict = reference_dict(plan, ctx)?;
                    let opts = option_sets(crate::obs::has_space(&dict));
                    let o = opts[(plan.param("opt") as usize).min(opts.len() - 1)];
                    let tokenizer = make_tokenizer(dict, o);
                    let sentences: Vec<String> = plan.file_str("sentences").split('\n').map(|s| s.to_string()).collect();
                    // the tokenize command's MeCab-mode loop, mirrored
                    let mut out = String::new();
                    let mut expected: Vec<Sent> = vec![];
                    let mut worker = tokenizer.new_worker();
                    for s in &sentences {
                        let toks = catch(|| {
                            worker.reset_sentence(s);
                            worker.tokenize();
                            read_tokens(&worker)
                        })
                        .map_err(|p| panic_violation("C19.tokenize", &format!("tokenizing {s:?}"), &p))?;
                        let mut sent = vec![];
                        for t in &toks {
                            out.push_str(&t.surface);
                            out.push('\t');
                            out.push_str(&t.feature);
                            out.push('\n');
                            sent.push((t.surface.clone(), t.feature.clone()));
                        }
                        out.push_str("EOS\n");
                        if !sent.is_empty() {
                            expected.push(sent);
                        } else {
                            ctx.count("probe.tokenizer_zero_tokens");
                        }
                    }
                    let parsed = parse_with(out.as_bytes(), &op.get_fault("src"), ctx)
                        .map_err(|p| panic_violation("C19.tokout.parse", "parsing tokenizer output", &p))?
                        .map_err(|e| Violation::new("C19.tokout.err", format!("tokenizer output {out:?} is rejected as a corpus: {e}")))?;
                    if parsed != expected {
                        return Err(Violation::new(
                            "C19.tokout.tokens",
                            format!("tokenizer output parses to {parsed:?}, the tokenizer reported {expected:?}"),
                        ));
                    }
                    ctx.observations += 1;
                    ctx.count("probe.tokenizer_output_parsed");
                    ctx.event("tokenizer output", &format!("{} sentences", expected.len()));
                }
                other => return Err(Violation::new("C19.plan", format!("unknown op {other}"))),
            }
        }
        Ok(())
    }

    fn nontrivial(&self, _plan: &Plan, ctx: &Ctx) -> bool {
        ctx.observations >= 1
    }

    fn describe(&self) -> ScenarioInfo {
        ScenarioInfo {
            level: "exploration",
            rule: "one seeded run = a seeded corpus in the documented format (0-5 sentences, token-less sentences, surfaces/features with commas, quotes, 'EOS' and blanks, optional missing final newline) parsed through short-read/EINTR readers, every example written back through short-write/EINTR sinks (bytes must equal the canonical re-serialisation of a harness-side reference parse; re-parsing must give the same examples); Example::write with a hard sink fault at a seeded offset must return Err; Corpus::from_reader with a hard reader fault must return Err; a corpus with one malformed line (no tab, two tabs, blank, 'EOS ' , 'eos') must be rejected; in one run out of four a seeded dictionary tokenizes 1-5 tab-free single-line sentences, the mirrored tokenize loop prints them MeCab-style and the corpus parser must return exactly the tokenizer's (surface, feature) lists. Added later: 1 token in 400 makes a line of 8 KiB/16 KiB/64 KiB +-3 bytes or up to 40 KB; surfaces with U+FEFF at either end, U+0085, U+2028, VT, FF; sinks handed over by &mut or by value inside BufWriter (8 KiB or 16 bytes)/LineWriter adapters that the callee owns. Round 5: surfaces starting with '#', '*', ';', '%', surfaces containing U+FFFD. distinct_nontrivial = distinct plan hashes of runs with >= 1 comparison",
            assumptions: vec![
                "the tokenize command is mirrored (its MeCab-mode print loop), not executed",
                "sentences and features contain no tab or line-break characters (the statement's precondition)",
            ],
            real: vec!["Corpus::from_reader, Example::write, Example::tokens, Word accessors, tokenizer (for tokenizer outputs)"],
            stub: vec!["corpus files and output files (FaultyReader/FaultySink over memory)"],
            probes: vec![
                "probe.tokenless_sentence_dropped",
                "probe.line_of_8192_bytes_or_more",
                "probe.malformed_rejected",
                "probe.tokenizer_output_parsed",
                "probe.tokenizer_zero_tokens",
                "fault.short_transfer",
                "fault.interrupted",
                "fault.hard",
            ],
        }
    }

    fn extra(&self, _tier: Tier, seed: u64, rep: &mut crate::runner::BatchReport) {
        // every byte offset of the sink for a few examples
        let mut points = 0u64;
        for idx in 0..20u64 {
            let mut rng = Rng::new(crate::rng::run_seed(seed, "C19-enum", idx));
            crate::hashseam::begin_run(crate::hashseam::plan_key(seed, u64::MAX - idx));
            let n_tok = 1 + rng.usize(5);
            let mut text = String::new();
            for _ in 0..n_tok {
                text.push_str(&format!("{}\t{}\n", gen_surface(&mut rng), gen_feature(&mut rng)));
            }
            text.push_str("EOS\n");
            let Some(reference) = reference_parse(&text) else { continue };
            if reference.is_empty() {
                continue;
            }
            let Ok(Ok(corpus)) = catch(|| Corpus::from_reader(text.as_bytes())) else { continue };
            let Some(ex) = corpus.first() else { continue };
            let len = serialise(&reference[0..1]).len();
            for k in 0..len {
                for kind in [0u8, 2] {
                    let f = Fault {
                        hard_at: Some(k as u64),
                        hard_kind: kind,
                        ..Default::default()
                    };
                    let mut sink = FaultySink::new(&f);
                    let r = catch(|| ex.write(crate::io::hand(&mut sink)).is_err());
                    points += 1;
                    if !matches!(r, Ok(true)) {
                        let mut plan = Plan::new("C19", seed, u64::MAX - idx);
                        plan.set_file("corpus.txt", text.clone());
                        let mut fr = (((k as u128) << 32) / len as u128) as i64;
                        while ((fr as u128 * len as u128) >> 32) as usize != k {
                            fr += 1;
                        }
                        plan.ops.push(Op::new("WriteFault").n(&[0, fr, i64::from(kind)]));
                        rep.extra_failure = Some((
                            plan,
                            Violation::new(
                                "C19.write_fault.ok",
                                format!("Example::write did not return Err although the sink failed at byte {k} of {len}"),
                            ),
                        ));
                        return;
                    }
                }
            }
        }
        rep.extra_evaluations += points;
        rep.extra_distinct += points;
        rep.extra.insert(
            "enumerated_sink_fault_points".into(),
            crate::json::J::s(&format!("{points} (every byte offset x {{error, device full}} of Example::write for 20 seeded examples)")),
        );
    }
}
