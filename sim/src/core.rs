//! Scenario interface, per-run context (event log, counters), panic capture.

use std::cell::RefCell;
use std::collections::BTreeMap;
use std::panic::{self, AssertUnwindSafe};

use crate::io::Fired;
use crate::plan::Plan;
use crate::rng::{fnv1a, Rng};

#[derive(Clone, Copy, Debug, PartialEq, Eq)]
pub enum Tier {
    Quick,
    Thorough,
}

impl Tier {
    pub fn name(self) -> &'static str {
        match self {
            Tier::Quick => "quick",
            Tier::Thorough => "thorough",
        }
    }
}

/// A property violation found by an oracle.
#[derive(Clone, Debug)]
pub struct Violation {
    /// Stable identifier of the oracle (and call site) that failed; minimisation keeps it fixed.
    pub oracle: String,
    pub detail: String,
}

impl Violation {
    pub fn new(oracle: &str, detail: impl Into<String>) -> Self {
        Violation {
            oracle: oracle.to_string(),
            detail: detail.into(),
        }
    }
}

pub type Check = Result<(), Violation>;

/// Reserved oracle id: a scenario ends a run early without a verdict (after counting a known
/// finding that makes the rest of the run meaningless).
pub const STOP: &str = "__stop__";

/// Executes a plan; a STOP pseudo-violation is "no violation".
pub fn run_plan(scen: &dyn Scenario, plan: &Plan, ctx: &mut Ctx) -> Check {
    // the hash order of every map the code under test creates during this execution is a function
    // of the plan (see hashseam.rs)
    crate::hashseam::begin_run(crate::hashseam::plan_key(plan.seed, plan.run));
    match scen.execute(plan, ctx) {
        Err(v) if v.oracle == STOP => Ok(()),
        r => r,
    }
}

/// Per-run context: event log digest, counters. Never reads a clock, never draws randomness.
pub struct Ctx {
    pub seq: u64,
    digest: u64,
    pub log: Option<Vec<String>>,
    pub counters: BTreeMap<&'static str, u64>,
    pub known: BTreeMap<String, u64>,
    /// Ids of the findings listed as `known:` in /verif/known_findings.txt for this property.
    pub listed_known: std::collections::BTreeSet<String>,
    pub observations: u64,
    pub state_changes: u64,
}

impl Ctx {
    pub fn new(keep_log: bool) -> Self {
        Ctx {
            seq: 0,
            digest: 0xcbf2_9ce4_8422_2325,
            log: if keep_log { Some(vec![]) } else { None },
            counters: BTreeMap::new(),
            known: BTreeMap::new(),
            listed_known: Default::default(),
            observations: 0,
            state_changes: 0,
        }
    }
    /// Appends an event to the (digested) event log.
    pub fn event(&mut self, what: &str, outcome: &str) {
        self.seq += 1;
        let mut h = self.digest;
        h ^= fnv1a(what.as_bytes());
        h = h.wrapping_mul(0x0000_0100_0000_01B3);
        h ^= fnv1a(outcome.as_bytes()).rotate_left(17);
        h = h.wrapping_mul(0x0000_0100_0000_01B3);
        self.digest = h;
        if let Some(l) = &mut self.log {
            l.push(format!("{:04} {} => {}", self.seq, what, outcome));
        }
    }
    pub fn digest(&self) -> u64 {
        self.digest ^ self.seq
    }
    pub fn count(&mut self, key: &'static str) {
        *self.counters.entry(key).or_insert(0) += 1;
    }
    pub fn add(&mut self, key: &'static str, n: u64) {
        if n > 0 {
            *self.counters.entry(key).or_insert(0) += n;
        }
    }
    pub fn fired(&mut self, f: &Fired) {
        self.add("fault.short_transfer", f.short);
        self.add("fault.interrupted", f.interrupted);
        self.add("fault.hard", f.hard);
        self.add("fault.premature_eof", f.eof);
        self.add("fault.sink_owned_by_callee", f.owned_adapter);
    }
    pub fn faults_fired(&self) -> u64 {
        self.counters
            .iter()
            .filter(|(k, _)| k.starts_with("fault."))
            .map(|(_, v)| *v)
            .sum()
    }
    /// Reports a failure that matches the precise predicate of a recorded finding: counted
    /// (not a violation) iff the finding is listed as known; otherwise an ordinary violation.
    pub fn known_finding(&mut self, id: &str, detail: &str) -> Check {
        if self.listed_known.contains(id) {
            *self.known.entry(id.to_string()).or_insert(0) += 1;
            Ok(())
        } else {
            Err(Violation::new(id, detail))
        }
    }
}

pub trait Scenario: Sync {
    fn id(&self) -> &'static str;
    /// Number of runs of a batch.
    fn runs(&self, tier: Tier) -> u64;
    /// Pure function of (rng, tier, run): the explicit plan.
    fn plan(&self, rng: &mut Rng, tier: Tier, seed: u64, run: u64) -> Plan;
    /// Executes a plan against the real code; returns the first violation.
    fn execute(&self, plan: &Plan, ctx: &mut Ctx) -> Check;
    /// Whether this run counts as non-trivial for the evidence (default: at least one
    /// observation after at least one state-changing event).
    fn nontrivial(&self, _plan: &Plan, ctx: &Ctx) -> bool {
        ctx.observations >= 1 && ctx.state_changes >= 1
    }
    /// Static description for the evidence file.
    fn describe(&self) -> ScenarioInfo;
    /// Extra deterministic work of a batch beyond the seeded runs (exhaustive enumerations);
    /// returns extra evidence keys.
    fn extra(&self, _tier: Tier, _seed: u64, _report: &mut crate::runner::BatchReport) {}
}

pub struct ScenarioInfo {
    pub level: &'static str,
    pub rule: &'static str,
    pub assumptions: Vec<&'static str>,
    pub real: Vec<&'static str>,
    pub stub: Vec<&'static str>,
    /// Probe counters that should be non-zero in a healthy batch.
    pub probes: Vec<&'static str>,
}

// ---------------------------------------------------------------------------------------------
// panic capture

#[derive(Clone, Debug)]
pub struct PanicInfo {
    pub msg: String,
    pub file: String,
    pub line: u32,
}

impl PanicInfo {
    pub fn brief(&self) -> String {
        format!("panic at {}:{}: {}", self.file, self.line, self.msg)
    }
    /// `file` relative to the vibrato crate, if the panic is inside it.
    pub fn site(&self) -> String {
        let f = match self.file.find("vibrato/src/") {
            Some(i) => &self.file[i..],
            None => match self.file.find("/library/") {
                Some(i) => &self.file[i + 1..],
                None => match self.file.find("/src/") {
                    // a dependency in the cargo registry: keep "<crate>-<ver>/src/..."
                    Some(i) => {
                        let start = self.file[..i].rfind('/').map(|j| j + 1).unwrap_or(0);
                        &self.file[start..]
                    }
                    None => &self.file,
                },
            },
        };
        f.to_string()
    }
}

thread_local! {
    static LAST_PANIC: RefCell<Option<PanicInfo>> = const { RefCell::new(None) };
    static CATCHING: RefCell<u32> = const { RefCell::new(0) };
}

/// Installs the silent hook (records message and location of panics raised inside `catch`;
/// panics elsewhere — harness bugs — are printed as usual).
pub fn install_panic_hook() {
    let default = panic::take_hook();
    panic::set_hook(Box::new(move |info| {
        let catching = CATCHING.with(|c| *c.borrow() > 0);
        if catching {
            let msg = if let Some(s) = info.payload().downcast_ref::<&str>() {
                (*s).to_string()
            } else if let Some(s) = info.payload().downcast_ref::<String>() {
                s.clone()
            } else {
                "<non-string panic>".to_string()
            };
            let (file, line) = info
                .location()
                .map(|l| (l.file().to_string(), l.line()))
                .unwrap_or_default();
            LAST_PANIC.with(|p| *p.borrow_mut() = Some(PanicInfo { msg, file, line }));
        } else {
            default(info);
        }
    }));
}

/// Runs `f` (a call into vibrato), turning a panic into `Err(PanicInfo)`.
pub fn catch<T>(f: impl FnOnce() -> T) -> Result<T, PanicInfo> {
    CATCHING.with(|c| *c.borrow_mut() += 1);
    let r = panic::catch_unwind(AssertUnwindSafe(f));
    CATCHING.with(|c| *c.borrow_mut() -= 1);
    match r {
        Ok(v) => Ok(v),
        Err(_) => Err(LAST_PANIC
            .with(|p| p.borrow_mut().take())
            .unwrap_or(PanicInfo {
                msg: "<unknown>".into(),
                file: String::new(),
                line: 0,
            })),
    }
}

/// A violation for a panic inside vibrato; the oracle id carries the panic site so that
/// minimisation cannot slide into a different panic.
pub fn panic_violation(prefix: &str, what: &str, p: &PanicInfo) -> Violation {
    Violation::new(
        &format!("{prefix}.panic@{}:{}", p.site(), p.line),
        format!("{what}: {}", p.brief()),
    )
}

/// Shorthand: a vibrato call that must not panic.
pub fn no_panic<T>(oracle: &str, what: &str, f: impl FnOnce() -> T) -> Result<T, Violation> {
    catch(f).map_err(|p| panic_violation(oracle, what, &p))
}
