//! C07 — compact bigram connectors compute the defining feature-pair sum.
//! The dimension a simulator owns here is the *hidden nondeterministic choice* of which templates a
//! dual connector pre-sums (randomly keyed hash order in production; hook H5 puts it under the
//! plan's order seeds), plus the two-build (portable/AVX2) dimension in the thorough tier.
//! Oracle: raw connector == harness-side defining sum for every id pair; dual connector under
//! every order seed == raw; raw, dual and a matrix.def materialised from the sums tokenize alike.

use std::collections::BTreeMap;

use crate::core::{catch, panic_violation, Check, Ctx, Scenario, ScenarioInfo, Tier, Violation};
use crate::obs::{build_plain, diff_obs, observe};
use crate::plan::{Op, Plan};
use crate::rng::Rng;
use crate::world::{gen_probes, gen_world, WorldCfg, CONN_DUAL, CONN_MATRIX, CONN_RAW};

pub struct BigramScenario;

/// Minimal CSV row splitter (RFC-4180 quoting), independent of vibrato's.
pub fn csv_fields(row: &str) -> Vec<String> {
    let mut out = vec![];
    let mut cur = String::new();
    let mut chars = row.chars().peekable();
    let mut quoted = false;
    let mut at_start = true;
    while let Some(c) = chars.next() {
        if quoted {
            if c == '"' {
                if chars.peek() == Some(&'"') {
                    cur.push('"');
                    chars.next();
                } else {
                    quoted = false;
                }
            } else {
                cur.push(c);
            }
        } else if c == '"' && at_start {
            quoted = true;
            at_start = false;
        } else if c == ',' {
            out.push(std::mem::take(&mut cur));
            at_start = true;
        } else {
            cur.push(c);
            at_start = false;
        }
    }
    out.push(cur);
    out
}

pub struct RefBigram {
    /// rows[id-1] = features per position
    pub right: Vec<Vec<String>>,
    pub left: Vec<Vec<String>>,
    pub cost: BTreeMap<(String, String), i64>,
    pub k: usize,
}

pub fn parse_bigram(right: &str, left: &str, cost: &str) -> Option<RefBigram> {
    let rows = |text: &str| -> Option<Vec<Vec<String>>> {
        let mut v = vec![];
        for (i, line) in text.lines().enumerate() {
            let (id, feats) = line.split_once('\t')?;
            if id.parse::<usize>().ok()? != i + 1 {
                return None;
            }
            v.push(csv_fields(feats));
        }
        Some(v)
    };
    let right = rows(right)?;
    let left = rows(left)?;
    let mut map = BTreeMap::new();
    for line in cost.lines() {
        let (pair, c) = line.split_once('\t')?;
        let (rf, lf) = pair.split_once('/')?;
        if lf.contains('/') {
            return None;
        }
        map.insert((rf.to_string(), lf.to_string()), c.parse::<i64>().ok()?);
    }
    let k = right.iter().chain(left.iter()).map(|r| r.len()).max().unwrap_or(0);
    Some(RefBigram {
        right,
        left,
        cost: map,
        k,
    })
}

impl RefBigram {
    /// The defining sum: over template positions, the cost listed for (right id's feature, left
    /// id's feature) at that position; unlisted pairs and missing columns count 0; id 0 is the
    /// empty feature at every position.
    pub fn sum(&self, r: usize, l: usize) -> i64 {
        let mut s = 0;
        for k in 0..self.k {
            let rf = if r == 0 {
                Some("")
            } else {
                self.right[r - 1].get(k).map(|x| x.as_str())
            };
            let lf = if l == 0 {
                Some("")
            } else {
                self.left[l - 1].get(k).map(|x| x.as_str())
            };
            if let (Some(rf), Some(lf)) = (rf, lf) {
                if let Some(c) = self.cost.get(&(rf.to_string(), lf.to_string())) {
                    s += c;
                }
            }
        }
        s
    }
    /// Cost contributed by template position `k` to the pair.
    pub fn cost_at(&self, k: usize, r: usize, l: usize) -> i64 {
        let rf = if r == 0 {
            Some("")
        } else {
            self.right[r - 1].get(k).map(|x| x.as_str())
        };
        let lf = if l == 0 {
            Some("")
        } else {
            self.left[l - 1].get(k).map(|x| x.as_str())
        };
        match (rf, lf) {
            (Some(rf), Some(lf)) => self.cost.get(&(rf.to_string(), lf.to_string())).copied().unwrap_or(0),
            _ => 0,
        }
    }

    /// Reference model of the dual connector's template split: the positions that stay in the
    /// pre-summed matrix part after eight greedy removals, trying candidates in the order hook H5
    /// defines for `order_seed` (ascending, then a splitmix64 Fisher-Yates shuffle if the seed is
    /// non-zero) and keeping the last candidate that does not enlarge
    /// (#distinct right rows) x (#distinct left rows). Rows are compared the way the connector
    /// sees them: a feature string that occurs in no cost line on its side is "no feature".
    pub fn split(&self, order_seed: u64) -> Vec<usize> {
        let right_known: std::collections::BTreeSet<&str> = self.cost.keys().map(|k| k.0.as_str()).collect();
        let left_known: std::collections::BTreeSet<&str> = self.cost.keys().map(|k| k.1.as_str()).collect();
        // interned: 0 = "no feature", otherwise one number per distinct string of the side
        let norm = |rows: &Vec<Vec<String>>, known: &std::collections::BTreeSet<&str>| -> Vec<Vec<u32>> {
            let mut ids: BTreeMap<&str, u32> = BTreeMap::new();
            rows.iter()
                .map(|row| {
                    row.iter()
                        .map(|f| {
                            if f.is_empty() || known.contains(f.as_str()) {
                                let next = ids.len() as u32 + 1;
                                *ids.entry(f.as_str()).or_insert(next)
                            } else {
                                0
                            }
                        })
                        .collect()
                })
                .collect()
        };
        let right = norm(&self.right, &right_known);
        let left = norm(&self.left, &left_known);
        let mut m: std::collections::BTreeSet<usize> = (0..self.k).collect();
        for _ in 0..8 {
            let mut order: Vec<usize> = m.iter().copied().collect();
            let mut x = order_seed;
            if x != 0 {
                for i in (1..order.len()).rev() {
                    x = x.wrapping_add(0x9E37_79B9_7F4A_7C15);
                    let mut z = x;
                    z = (z ^ (z >> 30)).wrapping_mul(0xBF58_476D_1CE4_E5B9);
                    z = (z ^ (z >> 27)).wrapping_mul(0x94D0_49BB_1331_11EB);
                    z ^= z >> 31;
                    let j = (z % (i as u64 + 1)) as usize;
                    order.swap(i, j);
                }
            }
            let mut candidate = 0;
            let mut min_size = left.len() * right.len();
            for &trial in &order {
                // (only the number of distinct rows is used: no iteration order involved)
                let distinct = |rows: &Vec<Vec<u32>>| -> usize {
                    let mut set = std::collections::HashSet::new();
                    for row in rows {
                        let v: Vec<u32> = m.iter().filter(|&&i| i != trial).filter_map(|&i| row.get(i).copied()).collect();
                        set.insert(v);
                    }
                    set.len()
                };
                let size = distinct(&right) * distinct(&left);
                if size <= min_size {
                    min_size = size;
                    candidate = trial;
                }
            }
            m.remove(&candidate);
        }
        m.into_iter().collect()
    }

    /// Reference model of the dual connector's value: the pre-summed part clamped to 16 bits plus
    /// the other positions. Returns (value, pre-summed part before the clamp).
    pub fn dual(&self, matrix_positions: &[usize], r: usize, l: usize) -> (i64, i64) {
        let mut pre = 0;
        let mut rest = 0;
        for k in 0..self.k {
            if matrix_positions.contains(&k) {
                pre += self.cost_at(k, r, l);
            } else {
                rest += self.cost_at(k, r, l);
            }
        }
        (pre.clamp(i64::from(i16::MIN), i64::from(i16::MAX)) + rest, pre)
    }

    /// Decides whether a cost table `get(r, l)` is what a dual connector may return: there is ONE
    /// set M of template positions (the pre-summed part; which positions, and how many, is the
    /// implementation's choice and not fixed by the statement) such that for EVERY id pair
    /// get(r, l) = clamp16(sum over M) + sum over the other positions. The split that the pinned
    /// tree's greedy rule makes under `order_seed` is tried first; only if it does not explain the
    /// table are all subsets searched. Ok((clamped, by_reference_rule)); Err = explanation.
    pub fn explain_dual(
        &self,
        order_seed: u64,
        nr: usize,
        nl: usize,
        get: &dyn Fn(usize, usize) -> i64,
    ) -> Result<(bool, bool), String> {
        let lo = i64::from(i16::MIN);
        let hi = i64::from(i16::MAX);
        let m0 = self.split(order_seed);
        let mut clamped = false;
        let mut first_mismatch = None;
        'outer: for r in 0..nr {
            for l in 0..nl {
                let (want, pre) = self.dual(&m0, r, l);
                clamped |= pre < lo || pre > hi;
                let got = get(r, l);
                if got != want {
                    first_mismatch = Some(format!(
                        "cost(right={r}, left={l}) = {got}; with the pre-summed positions {m0:?} of the reference split rule the pre-summed part {pre} clamped to 16 bits plus the other positions gives {want} (defining sum {})",
                        self.sum(r, l)
                    ));
                    break 'outer;
                }
            }
        }
        let Some(first_mismatch) = first_mismatch else {
            return Ok((clamped, true));
        };
        // pairs for which no subset of positions can leave the 16-bit range must equal the
        // defining sum whatever the split is
        let mut interesting: Vec<(i64, Vec<i64>)> = vec![];
        for r in 0..nr {
            for l in 0..nl {
                let (neg, pos) = self.signed_sums(r, l);
                let got = get(r, l);
                if neg >= lo && pos <= hi {
                    if got != self.sum(r, l) {
                        return Err(format!(
                            "cost(right={r}, left={l}) = {got}, the defining sum is {} and no subset of the template positions can leave the 16-bit range for this pair",
                            self.sum(r, l)
                        ));
                    }
                } else {
                    interesting.push((got, (0..self.k).map(|k| self.cost_at(k, r, l)).collect()));
                }
            }
        }
        if self.k > 22 {
            return Err(first_mismatch);
        }
        for mask in 0u32..(1u32 << self.k) {
            let ok = interesting.iter().all(|(got, c)| {
                let mut pre = 0;
                let mut rest = 0;
                for (k, &x) in c.iter().enumerate() {
                    if mask >> k & 1 == 1 {
                        pre += x;
                    } else {
                        rest += x;
                    }
                }
                pre.clamp(lo, hi) + rest == *got
            });
            if ok {
                return Ok((true, false));
            }
        }
        Err(format!("{first_mismatch}; and no other choice of pre-summed positions explains the values of all id pairs"))
    }

    /// (sum of the negative, sum of the positive) per-position costs of the pair: every partial
    /// sum over a subset of the template positions lies between the two.
    pub fn signed_sums(&self, r: usize, l: usize) -> (i64, i64) {
        let (mut neg, mut pos) = (0, 0);
        for k in 0..self.k {
            let rf = if r == 0 {
                Some("")
            } else {
                self.right[r - 1].get(k).map(|x| x.as_str())
            };
            let lf = if l == 0 {
                Some("")
            } else {
                self.left[l - 1].get(k).map(|x| x.as_str())
            };
            if let (Some(rf), Some(lf)) = (rf, lf) {
                if let Some(&c) = self.cost.get(&(rf.to_string(), lf.to_string())) {
                    if c < 0 {
                        neg += c;
                    } else {
                        pos += c;
                    }
                }
            }
        }
        (neg, pos)
    }
    pub fn num_right(&self) -> usize {
        self.right.len() + 1
    }
    pub fn num_left(&self) -> usize {
        self.left.len() + 1
    }
}

impl Scenario for BigramScenario {
    fn id(&self) -> &'static str {
        "C07"
    }
    fn runs(&self, tier: Tier) -> u64 {
        match tier {
            Tier::Quick => 12_000,
            Tier::Thorough => 400_000,
        }
    }
    fn plan(&self, rng: &mut Rng, _tier: Tier, seed: u64, run: u64) -> Plan {
        let mut plan = Plan::new("C07", seed, run);
        let cfg = WorldCfg {
            conns: vec![CONN_RAW],
            min_templates: 1,
            max_templates: 20,
            max_lex: 12,
            max_dim: 7,
            big_dim_one_in: 40,
            big_costs_one_in: 5,
            huge_dim_one_in: 0,
            extreme_ids_one_in: 1500,
            one_id_side_one_in: 60,
            threshold_sizes_one_in: 0,
            multiline_feature_one_in: 0,
        };
        // template counts around the SIMD width get extra weight
        let mut cfg = cfg;
        if rng.chance(1, 2) {
            let k = *rng.pick(&[1usize, 2, 5, 7, 8, 9, 15, 16, 17, 19]);
            cfg.min_templates = k;
            cfg.max_templates = k;
        }
        let info = gen_world(rng, &mut plan, &cfg);
        plan.set_file("probes", gen_probes(&mut rng.fork(), &info.surfaces, 4).join("\n"));
        let n_seeds = if info.num_left.max(info.num_right) >= 65535 {
            1 // each build of such a world takes seconds
        } else {
            2 + rng.usize(7)
        };
        plan.ops.push(Op::new("Raw"));
        plan.ops.push(Op::new("Dual").n(&[0])); // ascending trial order
        for _ in 0..n_seeds {
            plan.ops.push(Op::new("Dual").n(&[(rng.next_u64() >> 2) as i64]));
        }
        plan.ops.push(Op::new("Matrix"));
        // a dual (and a raw) dictionary whose connection ids are remapped before the lookups: the
        // remapping moves feature rows and renumbers the rows of the pre-summed matrix
        if rng.chance(1, 3) {
            let l = crate::world::join_ids(&crate::world::gen_perm(rng, info.num_left));
            let r = crate::world::join_ids(&crate::world::gen_perm(rng, info.num_right));
            plan.ops.push(Op::new("Remapped").n(&[(rng.next_u64() >> 2) as i64]).s(&l).s(&r));
        }
        plan
    }

    fn execute(&self, plan: &Plan, ctx: &mut Ctx) -> Check {
        let probes: Vec<String> = plan.file_str("probes").split('\n').map(|s| s.to_string()).collect();
        let Some(reference) = parse_bigram(
            &plan.file_str("bigram.right"),
            &plan.file_str("bigram.left"),
            &plan.file_str("bigram.cost"),
        ) else {
            return Err(Violation::new("C07.plan", "the harness cannot parse the plan's bigram files"));
        };
        let (nr, nl) = (reference.num_right(), reference.num_left());
        let mut raw_obs = None;
        let mut splits: std::collections::BTreeSet<Vec<u8>> = Default::default();
        for op in &plan.ops {
            match op.kind.as_str() {
                "Raw" => {
                    let d = build_plain("C07.raw", &plan.files, CONN_RAW, 0, ctx)?;
                    if d.verif_num_left() != nl || d.verif_num_right() != nr {
                        return Err(Violation::new(
                            "C07.dims",
                            format!("raw connector has {}x{} ids, the files define {nr}x{nl}", d.verif_num_right(), d.verif_num_left()),
                        ));
                    }
                    let (_, o) = observe(d, &probes, true);
                    let o = o.map_err(|p| panic_violation("C07.raw.observe", "observing the raw dictionary", &p))?;
                    ctx.observations += 1;
                    for r in 0..nr {
                        for l in 0..nl {
                            let got = i64::from(o.costs[r * nl + l]);
                            let want = reference.sum(r, l);
                            if got != want {
                                return Err(Violation::new(
                                    "C07.raw_vs_definition",
                                    format!("raw connector: cost(right={r}, left={l}) = {got}, the defining feature-pair sum is {want} (K={})", reference.k),
                                ));
                            }
                        }
                    }
                    if nr.max(nl) > 65535 {
                        ctx.count("probe.id_65535_in_use");
                    }
                    if reference.k < 8 {
                        ctx.count("probe.k_lt_8");
                    } else if reference.k == 8 {
                        ctx.count("probe.k_eq_8");
                    } else if reference.k % 8 != 0 {
                        ctx.count("probe.k_not_multiple_of_8");
                    } else {
                        ctx.count("probe.k_multiple_of_8");
                    }
                    if reference.right.iter().chain(reference.left.iter()).any(|r| r.len() < reference.k) {
                        ctx.count("probe.ragged_row");
                    }
                    if reference.cost.keys().any(|(r, _)| r.is_empty()) {
                        ctx.count("probe.bos_line");
                    }
                    if reference.cost.keys().any(|(_, l)| l.is_empty()) {
                        ctx.count("probe.eos_line");
                    }
                    ctx.state_changes += 1;
                    ctx.event("raw", "equals the defining sum for all id pairs");
                    raw_obs = Some(o);
                }
                "Dual" => {
                    let Some(raw) = raw_obs.as_ref() else { continue };
                    let seed = op.num(0) as u64;
                    let d = build_plain("C07.dual", &plan.files, CONN_DUAL, seed, ctx)?;
                    // the split shows in the image bytes: count distinct ones
                    let mut img = vec![];
                    let _ = catch(|| d.write(&mut img));
                    splits.insert(img);
                    let (_, o) = observe(d, &probes, true);
                    let o = o.map_err(|p| panic_violation("C07.dual.observe", "observing the dual dictionary", &p))?;
                    ctx.observations += 1;
                    // the executable reference model of the dual connector: same split, pre-summed
                    // part clamped once to 16 bits, the other positions added
                    let costs = &o.costs;
                    let (clamped, by_rule) = reference
                        .explain_dual(seed, nr, nl, &|r, l| i64::from(costs[r * nl + l]))
                        .map_err(|e| {
                            Violation::new(
                                "C07.dual_vs_model",
                                format!("dual connector (template trial order seed {seed}, K={}): {e}", reference.k),
                            )
                        })?;
                    if !by_rule {
                        ctx.count("dual_split_other_than_reference_rule");
                    }
                    if clamped {
                        // outside "whenever the pre-summed part fits in 16 bits": the values were
                        // checked against the model above; tokenizations may legitimately differ
                        ctx.count("probe.presum_outside_16_bits");
                        ctx.event(&op.brief(), "equals the clamped model");
                        continue;
                    }
                    if let Some(diff) = diff_obs(raw, &o, &probes) {
                        return Err(Violation::new(
                            "C07.dual_vs_raw",
                            format!("dual connector (template trial order seed {seed}, K={}) differs from the raw connector: {diff}", reference.k),
                        ));
                    }
                    ctx.event(&op.brief(), "equals raw");
                }
                "Matrix" => {
                    let Some(raw) = raw_obs.as_ref() else { continue };
                    // matrix.def holds 16-bit costs and a 16-bit header: worlds with larger sums or
                    // with 65536 ids on a side have no matrix form
                    if nr > 65535 || nl > 65535 {
                        continue;
                    }
                    if (0..nr).any(|r| (0..nl).any(|l| i16::try_from(reference.sum(r, l)).is_err())) {
                        ctx.count("probe.sum_outside_16_bits");
                        continue;
                    }
                    // matrix.def materialised from the defining sums
                    let mut m = format!("{nr} {nl}\n");
                    for r in 0..nr {
                        for l in 0..nl {
                            m.push_str(&format!("{r} {l} {}\n", reference.sum(r, l)));
                        }
                    }
                    let mut files = plan.files.clone();
                    files.insert("matrix.def".into(), m.into_bytes());
                    let d = build_plain("C07.matrix", &files, CONN_MATRIX, 0, ctx)?;
                    let (_, o) = observe(d, &probes, true);
                    let o = o.map_err(|p| panic_violation("C07.matrix.observe", "observing the materialised matrix dictionary", &p))?;
                    ctx.observations += 1;
                    if let Some(diff) = diff_obs(raw, &o, &probes) {
                        return Err(Violation::new(
                            "C07.matrix_vs_raw",
                            format!("a matrix.def materialised from the defining sums tokenizes differently from the raw connector: {diff}"),
                        ));
                    }
                    ctx.event("matrix", "equals raw");
                }
                "Remapped" => {
                    let seed = op.num(0) as u64;
                    let lmap = crate::world::parse_ids(op.str(0));
                    let rmap = crate::world::parse_ids(op.str(1));
                    if lmap.len() + 1 != nl || rmap.len() + 1 != nr {
                        continue; // (a shrunk plan)
                    }
                    // new id of old id x = position of x in the list (1-origin); 0 stays 0
                    let new_of = |list: &[u16], dim: usize| -> Vec<usize> {
                        let mut v = vec![0usize; dim];
                        for (i, &o) in list.iter().enumerate() {
                            if usize::from(o) < dim {
                                v[usize::from(o)] = i + 1;
                            }
                        }
                        v
                    };
                    let (pl, pr) = (new_of(&lmap, nl), new_of(&rmap, nr));
                    for (name, conn) in [("raw", CONN_RAW), ("dual", CONN_DUAL)] {
                        let d = build_plain("C07.remapped", &plan.files, conn, seed, ctx)?;
                        let d = crate::dictops::must("C07.remap", "map_connection_ids_from_iter", crate::dictops::map_ids(d, &lmap, &rmap))?;
                        let (_, o) = observe(d, &probes[..0], true);
                        let o = o.map_err(|p| panic_violation("C07.remapped.observe", "cost lookups of the remapped dictionary", &p))?;
                        ctx.observations += 1;
                        if conn == CONN_DUAL {
                            let costs = &o.costs;
                            reference
                                .explain_dual(seed, nr, nl, &|r, l| i64::from(costs[pr[r] * nl + pl[l]]))
                                .map_err(|e| {
                                    Violation::new(
                                        "C07.remapped",
                                        format!(
                                            "dual connector after remapping (left {:?}, right {:?}; trial order seed {seed}, K={}), pairs named by their ids before the remapping: {e}",
                                            op.str(0), op.str(1), reference.k
                                        ),
                                    )
                                })?;
                            continue;
                        }
                        for r in 0..nr {
                            for l in 0..nl {
                                let want = reference.sum(r, l);
                                let got = i64::from(o.costs[pr[r] * nl + pl[l]]);
                                if got != want {
                                    return Err(Violation::new(
                                        "C07.remapped",
                                        format!(
                                            "{name} connector after remapping (left {:?}, right {:?}; trial order seed {seed}, K={}): cost(new right {}, new left {}) = {got}, the pair was (right={r}, left={l}) with value {want}",
                                            op.str(0), op.str(1), reference.k, pr[r], pl[l]
                                        ),
                                    ));
                                }
                            }
                        }
                    }
                    ctx.count("probe.remapped_lookup");
                    ctx.event(&op.brief(), "equal up to the permutation");
                }
                other => return Err(Violation::new("C07.plan", format!("unknown op {other}"))),
            }
        }
        if splits.len() >= 2 {
            ctx.count("probe.two_distinct_splits");
        }
        ctx.add("distinct_splits_total", splits.len() as u64);
        Ok(())
    }

    fn describe(&self) -> ScenarioInfo {
        ScenarioInfo {
            level: "exploration",
            rule: "one seeded run = a seeded bigram model (K in 1..20 templates with extra weight on 1,2,5,7,8,9,15,16,17,19; ragged rows, strings shared across positions and sides, quoted features, dense/sparse cost tables, BOS/EOS lines, unused strings; 2-7 ids per side) compiled (a) with the raw connector, (b) with the dual connector under the ascending trial order and 2-8 seeded trial orders of the greedy template split (hook H5), (c) as a matrix.def materialised from the harness-side defining sums. For every id pair incl. id 0: raw == defining sum; every dual == raw; all three tokenize the probes identically. Added later: aligned blocks of empty columns; 1 world in 5 with per-template costs of thousands (signs alternating by blocks of eight positions, single entries beyond 16 bits), 1 in 60 with a side that has the BOS/EOS id only, 1 in 1500 with 65535 rows on one side; every dual dictionary is compared pair by pair with an executable reference model (own greedy split under the same trial order; pre-summed part clamped once to 16 bits); 1 run in 3 also remaps a raw and a dual dictionary with seeded permutations and compares every pair through the permutation; the hash order of every map in vibrato is seeded per run (hash-order seam). Round 5: single cost entries exactly at the ends of the 16-bit range; the dual oracle accepts any ONE split of the template positions that explains every id pair (the split rule is the implementation's choice). distinct_nontrivial = distinct plan hashes of runs with >= 1 comparison",
            assumptions: vec![
                "bigram.cost contains no literal '*' feature and no '/'-only line (BOSxEOS padding lanes would otherwise need interpretation); costs are within [-300,300] so the pre-summed part fits 16 bits",
                "the for-all-models quantifier of the statement is sampled as workload; what the simulation decides is independence from the hidden template split (and, thorough tier, from the build)",
            ],
            real: vec!["RawConnector, DualConnector (greedy split, pre-summed matrix, raw lanes), Scorer double array (portable path in the seeded runs; AVX2 path in the two-build exchange step of ./check, reported under cross_build_exchange), builder, tokenizer"],
            stub: vec!["bigram files (in-memory)", "the hash-order of the greedy split (replaced by the plan's order seed through hook H5)"],
            probes: vec![
                "probe.k_lt_8",
                "probe.k_eq_8",
                "probe.k_not_multiple_of_8",
                "probe.k_multiple_of_8",
                "probe.ragged_row",
                "probe.bos_line",
                "probe.eos_line",
                "probe.two_distinct_splits",
                "probe.presum_outside_16_bits",
                "probe.id_65535_in_use",
                "probe.remapped_lookup",
            ],
        }
    }
}
