//! Minimal JSON value, printer and parser (no dependency outside this repository decides a run
//! or a replay).

use std::collections::BTreeMap;
use std::fmt::Write as _;

#[derive(Clone, Debug, PartialEq)]
pub enum J {
    Null,
    Bool(bool),
    Int(i64),
    Num(f64),
    Str(String),
    Arr(Vec<J>),
    Obj(BTreeMap<String, J>),
}

impl J {
    pub fn obj() -> J {
        J::Obj(BTreeMap::new())
    }
    pub fn set(mut self, k: &str, v: J) -> J {
        if let J::Obj(m) = &mut self {
            m.insert(k.to_string(), v);
        }
        self
    }
    pub fn put(&mut self, k: &str, v: J) {
        if let J::Obj(m) = self {
            m.insert(k.to_string(), v);
        }
    }
    pub fn get(&self, k: &str) -> Option<&J> {
        match self {
            J::Obj(m) => m.get(k),
            _ => None,
        }
    }
    pub fn as_i64(&self) -> Option<i64> {
        match self {
            J::Int(i) => Some(*i),
            J::Num(f) => Some(*f as i64),
            _ => None,
        }
    }
    pub fn as_str(&self) -> Option<&str> {
        match self {
            J::Str(s) => Some(s),
            _ => None,
        }
    }
    pub fn as_arr(&self) -> Option<&[J]> {
        match self {
            J::Arr(a) => Some(a),
            _ => None,
        }
    }
    pub fn as_bool(&self) -> Option<bool> {
        match self {
            J::Bool(b) => Some(*b),
            _ => None,
        }
    }
    pub fn s(x: &str) -> J {
        J::Str(x.to_string())
    }
    pub fn i<T: TryInto<i64>>(x: T) -> J {
        J::Int(x.try_into().ok().unwrap_or(i64::MAX))
    }
    pub fn arr_i<T: Copy + TryInto<i64>>(xs: &[T]) -> J {
        J::Arr(xs.iter().map(|&x| J::i(x)).collect())
    }
    pub fn arr_s<S: AsRef<str>>(xs: &[S]) -> J {
        J::Arr(xs.iter().map(|x| J::s(x.as_ref())).collect())
    }

    pub fn to_string_pretty(&self) -> String {
        let mut out = String::new();
        self.write(&mut out, 0, true);
        out.push('\n');
        out
    }
    pub fn to_string_compact(&self) -> String {
        let mut out = String::new();
        self.write(&mut out, 0, false);
        out
    }

    fn write(&self, out: &mut String, ind: usize, pretty: bool) {
        match self {
            J::Null => out.push_str("null"),
            J::Bool(b) => out.push_str(if *b { "true" } else { "false" }),
            J::Int(i) => {
                let _ = write!(out, "{i}");
            }
            J::Num(f) => {
                if f.is_finite() {
                    let s = format!("{f}");
                    out.push_str(&s);
                    if !s.contains(['.', 'e', 'E']) {
                        // keep it a JSON number with a fractional part
                        out.push_str(".0");
                    }
                } else {
                    out.push_str("null");
                }
            }
            J::Str(s) => write_str(out, s),
            J::Arr(a) => {
                let simple = a
                    .iter()
                    .all(|x| !matches!(x, J::Arr(_) | J::Obj(_)));
                if a.is_empty() {
                    out.push_str("[]");
                } else if !pretty || simple {
                    out.push('[');
                    for (i, x) in a.iter().enumerate() {
                        if i > 0 {
                            out.push_str(if pretty { ", " } else { "," });
                        }
                        x.write(out, ind, false);
                    }
                    out.push(']');
                } else {
                    out.push_str("[\n");
                    for (i, x) in a.iter().enumerate() {
                        indent(out, ind + 1);
                        x.write(out, ind + 1, pretty);
                        if i + 1 < a.len() {
                            out.push(',');
                        }
                        out.push('\n');
                    }
                    indent(out, ind);
                    out.push(']');
                }
            }
            J::Obj(m) => {
                if m.is_empty() {
                    out.push_str("{}");
                } else if !pretty {
                    out.push('{');
                    for (i, (k, v)) in m.iter().enumerate() {
                        if i > 0 {
                            out.push(',');
                        }
                        write_str(out, k);
                        out.push(':');
                        v.write(out, ind, false);
                    }
                    out.push('}');
                } else {
                    out.push_str("{\n");
                    for (i, (k, v)) in m.iter().enumerate() {
                        indent(out, ind + 1);
                        write_str(out, k);
                        out.push_str(": ");
                        v.write(out, ind + 1, pretty);
                        if i + 1 < m.len() {
                            out.push(',');
                        }
                        out.push('\n');
                    }
                    indent(out, ind);
                    out.push('}');
                }
            }
        }
    }
}

fn indent(out: &mut String, n: usize) {
    for _ in 0..n {
        out.push(' ');
    }
}

fn write_str(out: &mut String, s: &str) {
    out.push('"');
    for c in s.chars() {
        match c {
            '"' => out.push_str("\\\""),
            '\\' => out.push_str("\\\\"),
            '\n' => out.push_str("\\n"),
            '\r' => out.push_str("\\r"),
            '\t' => out.push_str("\\t"),
            c if (c as u32) < 0x20 || c == '\u{7f}' => {
                let _ = write!(out, "\\u{:04x}", c as u32);
            }
            c => out.push(c),
        }
    }
    out.push('"');
}

pub fn parse(src: &str) -> Result<J, String> {
    let mut p = P {
        b: src.as_bytes(),
        i: 0,
    };
    p.ws();
    let v = p.value()?;
    p.ws();
    if p.i != p.b.len() {
        return Err(format!("trailing data at byte {}", p.i));
    }
    Ok(v)
}

struct P<'a> {
    b: &'a [u8],
    i: usize,
}

impl P<'_> {
    fn ws(&mut self) {
        while self.i < self.b.len() && matches!(self.b[self.i], b' ' | b'\n' | b'\r' | b'\t') {
            self.i += 1;
        }
    }
    fn value(&mut self) -> Result<J, String> {
        self.ws();
        if self.i >= self.b.len() {
            return Err("unexpected end".into());
        }
        match self.b[self.i] {
            b'n' => self.lit("null", J::Null),
            b't' => self.lit("true", J::Bool(true)),
            b'f' => self.lit("false", J::Bool(false)),
            b'"' => Ok(J::Str(self.string()?)),
            b'[' => {
                self.i += 1;
                let mut v = vec![];
                self.ws();
                if self.peek() == Some(b']') {
                    self.i += 1;
                    return Ok(J::Arr(v));
                }
                loop {
                    v.push(self.value()?);
                    self.ws();
                    match self.peek() {
                        Some(b',') => self.i += 1,
                        Some(b']') => {
                            self.i += 1;
                            return Ok(J::Arr(v));
                        }
                        _ => return Err(format!("expected , or ] at {}", self.i)),
                    }
                }
            }
            b'{' => {
                self.i += 1;
                let mut m = BTreeMap::new();
                self.ws();
                if self.peek() == Some(b'}') {
                    self.i += 1;
                    return Ok(J::Obj(m));
                }
                loop {
                    self.ws();
                    let k = self.string()?;
                    self.ws();
                    if self.peek() != Some(b':') {
                        return Err(format!("expected : at {}", self.i));
                    }
                    self.i += 1;
                    let v = self.value()?;
                    m.insert(k, v);
                    self.ws();
                    match self.peek() {
                        Some(b',') => self.i += 1,
                        Some(b'}') => {
                            self.i += 1;
                            return Ok(J::Obj(m));
                        }
                        _ => return Err(format!("expected , or }} at {}", self.i)),
                    }
                }
            }
            _ => self.number(),
        }
    }
    fn peek(&self) -> Option<u8> {
        self.b.get(self.i).copied()
    }
    fn lit(&mut self, s: &str, v: J) -> Result<J, String> {
        if self.b[self.i..].starts_with(s.as_bytes()) {
            self.i += s.len();
            Ok(v)
        } else {
            Err(format!("bad literal at {}", self.i))
        }
    }
    fn number(&mut self) -> Result<J, String> {
        let st = self.i;
        while self.i < self.b.len()
            && matches!(self.b[self.i], b'0'..=b'9' | b'-' | b'+' | b'.' | b'e' | b'E')
        {
            self.i += 1;
        }
        let t = std::str::from_utf8(&self.b[st..self.i]).map_err(|e| e.to_string())?;
        if let Ok(i) = t.parse::<i64>() {
            Ok(J::Int(i))
        } else {
            t.parse::<f64>()
                .map(J::Num)
                .map_err(|_| format!("bad number {t:?} at {st}"))
        }
    }
    fn string(&mut self) -> Result<String, String> {
        if self.peek() != Some(b'"') {
            return Err(format!("expected string at {}", self.i));
        }
        self.i += 1;
        let mut out: Vec<u8> = vec![];
        loop {
            let c = *self.b.get(self.i).ok_or("unterminated string")?;
            self.i += 1;
            match c {
                b'"' => break,
                b'\\' => {
                    let e = *self.b.get(self.i).ok_or("bad escape")?;
                    self.i += 1;
                    match e {
                        b'"' => out.push(b'"'),
                        b'\\' => out.push(b'\\'),
                        b'/' => out.push(b'/'),
                        b'n' => out.push(b'\n'),
                        b'r' => out.push(b'\r'),
                        b't' => out.push(b'\t'),
                        b'b' => out.push(8),
                        b'f' => out.push(12),
                        b'u' => {
                            let mut cp = self.hex4()?;
                            if (0xD800..0xDC00).contains(&cp)
                                && self.b[self.i..].starts_with(b"\\u")
                            {
                                self.i += 2;
                                let lo = self.hex4()?;
                                cp = 0x10000 + ((cp - 0xD800) << 10) + (lo - 0xDC00);
                            }
                            let ch = char::from_u32(cp).ok_or("bad code point")?;
                            let mut buf = [0u8; 4];
                            out.extend_from_slice(ch.encode_utf8(&mut buf).as_bytes());
                        }
                        _ => return Err("bad escape".into()),
                    }
                }
                c => out.push(c),
            }
        }
        String::from_utf8(out).map_err(|e| e.to_string())
    }
    fn hex4(&mut self) -> Result<u32, String> {
        let t = self.b.get(self.i..self.i + 4).ok_or("bad \\u")?;
        self.i += 4;
        u32::from_str_radix(std::str::from_utf8(t).map_err(|e| e.to_string())?, 16)
            .map_err(|e| e.to_string())
    }
}

#[cfg(test)]
mod tests {
    use super::*;
    #[test]
    fn roundtrip() {
        let v = J::obj()
            .set("a", J::Int(-3))
            .set("s", J::s("x\"\\\n\u{0}\u{1F600}é"))
            .set("arr", J::Arr(vec![J::Null, J::Bool(true), J::Num(1.5)]))
            .set("o", J::obj().set("k", J::Arr(vec![])));
        let t = v.to_string_pretty();
        assert_eq!(parse(&t).unwrap(), v);
        let t = v.to_string_compact();
        assert_eq!(parse(&t).unwrap(), v);
    }
}
