//! C20 — MeCab model conversion preserves the model's bigram costs.
//! Pipeline on the simulated disk: four readers (feature.def, right-id.def, left-id.def,
//! model.def), three internally buffered sinks (bigram.right/left/cost), then compile the emitted
//! files with the raw connector and compare every non-zero id pair with a harness-side expansion
//! of the MeCab model.

use std::collections::BTreeMap;

use crate::core::{catch, panic_violation, Check, Ctx, Scenario, ScenarioInfo, Tier, Violation};
use crate::io::{gen_benign, FaultyReader, FaultySink};
use crate::obs::build_dict;
use crate::plan::{Fault, Op, Plan};
use crate::rng::Rng;
use crate::scen_bigram::csv_fields;
use crate::world::CONN_RAW;

pub struct MecabScenario;

const READERS: &[&str] = &["feature.def", "right-id.def", "left-id.def", "model.def"];
const SINKS: &[&str] = &["bigram.right", "bigram.left", "bigram.cost"];

/// Expands one side of a bigram template; None = the template does not apply (a `?` reference
/// to a feature that is '*' or absent).
fn expand(template: &str, side: char, feats: &[String]) -> Option<String> {
    let b: Vec<char> = template.chars().collect();
    let mut out = String::new();
    let mut i = 0;
    while i < b.len() {
        if b[i] == '%' && i + 1 < b.len() && b[i + 1] == side {
            let mut j = i + 2;
            let optional = j < b.len() && b[j] == '?';
            if optional {
                j += 1;
            }
            if j < b.len() && b[j] == '[' {
                let mut k = j + 1;
                let mut n = String::new();
                while k < b.len() && b[k].is_ascii_digit() {
                    n.push(b[k]);
                    k += 1;
                }
                if !n.is_empty() && k < b.len() && b[k] == ']' {
                    let idx: usize = n.parse().ok()?;
                    let v = feats.get(idx).map(|s| s.as_str()).unwrap_or("*");
                    if optional && v == "*" {
                        return None;
                    }
                    out.push_str(v);
                    i = k + 1;
                    continue;
                }
            }
        }
        out.push(b[i]);
        i += 1;
    }
    Some(out)
}

struct MecabModel {
    templates: Vec<(String, String)>,
    /// features of right ids (right-id.def), index = id
    right: Vec<Vec<String>>,
    /// features of left ids (left-id.def)
    left: Vec<Vec<String>>,
    weights: BTreeMap<String, f64>,
}

fn parse_model(plan: &Plan) -> Option<MecabModel> {
    let mut templates = vec![];
    for line in plan.file_str("feature.def").lines() {
        let line = line.trim();
        if let Some(t) = line.strip_prefix("BIGRAM ") {
            let (l, r) = t.split_once('/')?;
            templates.push((l.to_string(), r.to_string()));
        }
    }
    // lines may come in any order; the ids must be dense 0..n
    let ids = |text: String| -> Option<Vec<Vec<String>>> {
        let mut m: BTreeMap<usize, Vec<String>> = BTreeMap::new();
        for line in text.lines() {
            let (id, feats) = line.split_once(' ')?;
            if !id.bytes().all(|b| b.is_ascii_digit()) {
                return None;
            }
            if m.insert(id.parse::<usize>().ok()?, csv_fields(feats)).is_some() {
                return None; // duplicate id: outside the statement
            }
        }
        if m.keys().copied().ne(0..m.len()) {
            return None;
        }
        Some(m.into_values().collect())
    };
    let right = ids(plan.file_str("right-id.def"))?;
    let left = ids(plan.file_str("left-id.def"))?;
    let mut weights = BTreeMap::new();
    for line in plan.file_str("model.def").lines() {
        if let Some((w, text)) = line.split_once('\t') {
            if let Ok(w) = w.parse::<f64>() {
                weights.insert(text.to_string(), w);
            }
        }
    }
    Some(MecabModel {
        templates,
        right,
        left,
        weights,
    })
}

impl MecabModel {
    fn expected(&self, r: usize, l: usize, factor: f64) -> i64 {
        let mut sum = 0i64;
        for (lt, rt) in &self.templates {
            let le = expand(lt, 'L', &self.right[r]);
            let re = expand(rt, 'R', &self.left[l]);
            if let (Some(le), Some(re)) = (le, re) {
                if let Some(w) = self.weights.get(&format!("{le}/{re}")) {
                    sum += i64::from(-(w * factor) as i32);
                }
            }
        }
        sum
    }
}

/// Feature rows with 12 columns (UniDic-like): columns 10 and 11 are referenced by two-digit
/// template indices.
fn gen_wide_id_feats(rng: &mut Rng) -> String {
    let mut cols: Vec<String> = vec![format!("名{}", rng.below(3))];
    for c in 1..12 {
        cols.push(match rng.below(5) {
            0 => "*".to_string(),
            _ => format!("c{c}v{}", rng.below(2)),
        });
    }
    cols.join(",")
}

fn gen_id_feats(rng: &mut Rng, trailing: bool) -> String {
    let a = format!("名{}", rng.below(3));
    if trailing && rng.chance(1, 3) {
        // two columns, the second one empty: the row ends in a comma
        return format!("{a},");
    }
    let b = match rng.below(5) {
        0 => "*".to_string(),
        // a value with a blank inside
        1 if rng.chance(1, 2) => format!("proper s{}", rng.below(2)),
        _ => format!("s{}", rng.below(3)),
    };
    let c = match rng.below(4) {
        0 => "*".to_string(),
        1 => "\"q,c\"".to_string(),
        _ => format!("r{}", rng.below(2)),
    };
    match rng.below(5) {
        0 => format!("{a},{b}"),
        _ => format!("{a},{b},{c}"),
    }
}

fn run_conversion(
    plan: &Plan,
    op: Option<&Op>,
    ctx: &mut Ctx,
) -> (Result<Result<(), String>, crate::core::PanicInfo>, [Vec<u8>; 3], bool) {
    let f = |n: &str| op.map(|o| o.get_fault(n)).unwrap_or_default();
    let fr: Vec<Fault> = READERS.iter().map(|n| f(n)).collect();
    let fs: Vec<Fault> = SINKS.iter().map(|n| f(n)).collect();
    let mut r0 = FaultyReader::new(plan.file(READERS[0]), &fr[0]);
    let mut r1 = FaultyReader::new(plan.file(READERS[1]), &fr[1]);
    let mut r2 = FaultyReader::new(plan.file(READERS[2]), &fr[2]);
    let mut r3 = FaultyReader::new(plan.file(READERS[3]), &fr[3]);
    let mut s0 = FaultySink::new(&fs[0]);
    let mut s1 = FaultySink::new(&fs[1]);
    let mut s2 = FaultySink::new(&fs[2]);
    let factor = plan.param("cost_factor") as f64;
    let r = catch(|| {
        vibrato::mecab::generate_bigram_info(
            &mut r0, &mut r1, &mut r2, &mut r3, factor, crate::io::hand(&mut s0), crate::io::hand(&mut s1), crate::io::hand(&mut s2),
        )
        .map_err(|e| e.to_string())
    });
    let mut reader_hard = false;
    for rd in [&r0, &r1, &r2, &r3] {
        ctx.fired(&rd.fired);
        reader_hard |= rd.fired.hard > 0;
    }
    for s in [&s0, &s1, &s2] {
        ctx.fired(&s.fired);
    }
    (r, [s0.data, s1.data, s2.data], reader_hard)
}

impl Scenario for MecabScenario {
    fn id(&self) -> &'static str {
        "C20"
    }
    fn runs(&self, tier: Tier) -> u64 {
        match tier {
            Tier::Quick => 60_000,
            Tier::Thorough => 2_000_000,
        }
    }
    fn plan(&self, rng: &mut Rng, _tier: Tier, seed: u64, run: u64) -> Plan {
        let mut plan = Plan::new("C20", seed, run);
        // feature.def: unigram lines are ignored by the conversion but must parse
        let mut fd = String::from("UNIGRAM U0:%F[0]\n");
        let pool = [
            "B0:%L[0]/%R[0]",
            "B1:%L[0],%L[1]/%R[0]",
            "B2:%L[1]/%R[0],%R[1]",
            "B3:%L?[1]/%R[0]",
            "B4:%L[0]/%R?[2]",
            "B5:%L?[2],%L[0]/%R?[1],%R[0]",
            "B6:lit/%R[1]",
            "B7:%L[0]/lit",
            // MeCab-style templates without a prefix on one side: their BOS/EOS lines in model.def
            // become "/x" and "x/" cost lines
            "%L[0]/%R[0]",
            "%L?[1]/%R[0]",
            "%L[0]/%R?[1]",
            "%L?[2],%L[0]/R:%R[0]",
            // two optional references on a side (each alone decides whether the template applies),
            // and a non-optional twin that expands to the same text where both apply
            "B9:%L?[1],%L?[2]/%R?[1],%R?[2]",
            "B9:%L[1],%L[2]/%R[1],%R[2]",
            "%L?[2],%L?[1]/B10:%R[0]",
            // literal text with characters that other parsers give a meaning
            "B11:%L[0]/R#1:%R[1]",
            // a reference of the other side's kind is literal text
            "B13:x%R[0]:%L[0]/%R[0]",
            "B14:%L[1]/y%L?[0]:%R[1]",
            "B12:%L[1]/%R[0];y",
        ];
        let n_t = 1 + rng.usize(6);
        let mut idx: Vec<usize> = (0..pool.len()).collect();
        rng.shuffle(&mut idx);
        // one world in eight has id-table rows that end in a comma (an empty last column). A bare
        // reference to that column would expand to the empty string, which the bigram files
        // reserve for BOS/EOS (cf. KF-C16-2): templates with such a side are left out there
        let trailing = rng.chance(1, 8);
        if trailing {
            idx.retain(|&i| {
                pool[i]
                    .split_once(':')
                    .map_or(pool[i], |x| if x.0.starts_with('B') { x.1 } else { pool[i] })
                    .split('/')
                    .all(|side| !matches!(side.trim_start_matches("R:"), "%L[1]" | "%L?[1]" | "%R[1]" | "%R?[1]"))
            });
        }
        let mut chosen: Vec<&str> = idx.iter().take(n_t).map(|&i| pool[i]).collect();
        let wide = rng.chance(1, 5);
        if wide {
            let wide_pool = ["W0:%L[10]/%R[11]", "W1:%L?[11]/%R[10]", "%L[0],%L[10]/%R?[10]", "W3:%L[1]/%R[10],%R[0]"];
            let k = 1 + rng.usize(3);
            for t in wide_pool.iter().take(k) {
                chosen.push(t);
            }
        }
        for t in &chosen {
            fd.push_str(&format!("BIGRAM {t}\n"));
        }
        if rng.chance(1, 3) {
            fd.push_str("\n# comment\n");
        }
        let n_r = 2 + rng.usize(7);
        let n_l = 2 + rng.usize(7);
        let table = |rng: &mut Rng, n: usize| -> Vec<String> {
            // (the first column may be quoted)
            let mut v = vec![if rng.chance(1, 6) { "0 \"BOS/EOS\",*,*".to_string() } else { "0 BOS/EOS,*,*".to_string() }];
            for i in 1..n {
                if wide {
                    v.push(format!("{i} {}", gen_wide_id_feats(rng)));
                } else {
                    v.push(format!("{i} {}", gen_id_feats(rng, trailing)));
                }
            }
            v
        };
        let mut right = table(rng, n_r);
        let mut left = table(rng, n_l);
        // error worlds named by the statement
        let error = match rng.below(10) {
            0 => 1, // gap among the defined ids
            1 => 2, // id 0 that is not BOS/EOS
            2 => 3, // malformed id line
            _ => 0,
        };
        let victim_right = rng.chance(1, 2);
        {
            let t = if victim_right { &mut right } else { &mut left };
            match error {
                1 if t.len() >= 3 => {
                    let i = 1 + rng.usize(t.len() - 2);
                    t.remove(i);
                }
                1 => {
                    t.push(format!("{} x,y,z", t.len() + 1));
                }
                2 => {
                    t[0] = match rng.below(3) {
                        0 => "0 名0,*,*".to_string(),
                        // a first column that only starts like BOS/EOS
                        1 => "0 BOS/EOS2,*,*".to_string(),
                        _ => "0 BOS/EOSx".to_string(),
                    }
                }
                3 => {
                    let i = rng.usize(t.len());
                    t[i] = match rng.below(6) {
                        0 => t[i].replacen(' ', "", 1),
                        1 => format!("x{}", t[i]),
                        2 => format!(" {}", t[i]),
                        // round 8: ids that an integer parser accepts but the format does not
                        3 => format!("+{}", t[i]),
                        4 => format!("-{}", t[i]),
                        _ => t[i].replacen(' ', "x ", 1),
                    };
                }
                _ => {}
            }
        }
        plan.set_param("error_world", error);
        // model.def: weights for expansions that occur, plus unmatched and zero entries
        let model = MecabModel {
            templates: chosen
                .iter()
                .filter_map(|t| t.split_once('/'))
                .map(|(a, b)| (a.to_string(), b.to_string()))
                .collect(),
            right: right.iter().map(|l| csv_fields(l.split_once(' ').map(|x| x.1).unwrap_or(""))).collect(),
            left: left.iter().map(|l| csv_fields(l.split_once(' ').map(|x| x.1).unwrap_or(""))).collect(),
            weights: BTreeMap::new(),
        };
        let mut texts = std::collections::BTreeSet::new();
        for (lt, rt) in &model.templates {
            for r in 1..model.right.len() {
                for l in 1..model.left.len() {
                    if let (Some(a), Some(b)) = (expand(lt, 'L', &model.right[r]), expand(rt, 'R', &model.left[l])) {
                        texts.insert(format!("{a}/{b}"));
                    }
                }
            }
        }
        let mut md = String::new();
        if rng.chance(1, 3) {
            md.push_str("cost-factor: 700\ncharset: utf8\n\n");
        }
        for t in &texts {
            if rng.chance(1, 4) {
                continue; // unlisted pair
            }
            let w = match rng.below(8) {
                0 => "0".to_string(),
                1 => "0.0004".to_string(), // truncates to zero for small factors
                2 => format!("-{}.{}", rng.below(30), rng.below(1000)),
                _ => format!("{}.{:03}", rng.range(-20, 20), rng.below(1000)),
            };
            md.push_str(&format!("{w}\t{t}\n"));
        }
        // BOS/EOS lines, as a real model.def has them: "<BOS expansion>/<right expansion>" and
        // "<left expansion>/<EOS expansion>" (they concern pairs with id 0 only)
        let bos: Vec<String> = vec!["BOS/EOS".into(), "*".into(), "*".into()];
        for (lt, rt) in &model.templates {
            if let Some(b) = expand(lt, 'L', &bos) {
                for l in 1..model.left.len() {
                    if let Some(re) = expand(rt, 'R', &model.left[l]) {
                        if rng.chance(1, 2) && texts.insert(format!("{b}/{re}")) {
                            md.push_str(&format!("{}.{:02}\t{b}/{re}\n", rng.range(-9, 9), rng.below(100)));
                        }
                    }
                }
            }
            if let Some(e) = expand(rt, 'R', &bos) {
                for r in 1..model.right.len() {
                    if let Some(le) = expand(lt, 'L', &model.right[r]) {
                        if rng.chance(1, 2) && texts.insert(format!("{le}/{e}")) {
                            md.push_str(&format!("{}.{:02}\t{le}/{e}\n", rng.range(-9, 9), rng.below(100)));
                        }
                    }
                }
            }
        }
        for k in 0..rng.usize(4) {
            md.push_str(&format!("1.5\tB9:nosuch{k}/other\n"));
        }
        if rng.chance(1, 2) {
            md.push_str("0.75\tU0:名0\n"); // a unigram feature line: no slash
        }
        // the id tables need not list the ids in ascending order
        if rng.chance(1, 4) {
            rng.shuffle(&mut right);
        }
        if rng.chance(1, 4) {
            rng.shuffle(&mut left);
        }
        plan.set_file("feature.def", fd);
        plan.set_file("right-id.def", right.join("\n") + "\n");
        plan.set_file("left-id.def", left.join("\n") + "\n");
        plan.set_file("model.def", md);
        plan.set_param("cost_factor", *rng.pick(&[1i64, 7, 100, 700, 800, 800, 5000, 100_000]));
        let mut conv = Op::new("Convert");
        for n in READERS.iter().chain(SINKS.iter()) {
            if rng.chance(1, 3) {
                conv = conv.fault(n, gen_benign(rng, 256));
            }
        }
        plan.ops.push(conv);
        for _ in 0..rng.usize(5) {
            let sink = *rng.pick(SINKS);
            plan.ops.push(
                Op::new("SinkFault")
                    .s(sink)
                    .n(&[rng.range(0, (1 << 32) - 1), *rng.pick(&[0i64, 1, 2])]),
            );
        }
        if rng.chance(1, 3) {
            let rd = *rng.pick(READERS);
            plan.ops.push(
                Op::new("ReaderFault")
                    .s(rd)
                    .n(&[rng.range(0, (1 << 32) - 1), *rng.pick(&[0i64, 1, 3])]),
            );
        }
        plan
    }

    fn execute(&self, plan: &Plan, ctx: &mut Ctx) -> Check {
        let error_world = plan.param("error_world") != 0;
        let factor = plan.param("cost_factor") as f64;
        let mut emitted: Option<[Vec<u8>; 3]> = None;
        for op in &plan.ops {
            match op.kind.as_str() {
                "Convert" => {
                    let (r, files, _) = run_conversion(plan, Some(op), ctx);
                    let r = r.map_err(|p| panic_violation("C20.convert", "generate_bigram_info", &p))?;
                    ctx.observations += 1;
                    let reference = parse_model(plan);
                    if error_world || reference.is_none() {
                        // a gap among the ids, an id 0 that is not BOS/EOS, or a malformed id line
                        if r.is_ok() && error_world {
                            return Err(Violation::new(
                                "C20.error_world.accepted",
                                format!(
                                    "a model with {} was converted without an error",
                                    ["", "a gap among the defined ids", "an id 0 that is not BOS/EOS", "a malformed id line"]
                                        [plan.param("error_world").clamp(0, 3) as usize]
                                ),
                            ));
                        }
                        ctx.count("probe.error_world_rejected");
                        ctx.event("convert", "Err (error world)");
                        return Ok(());
                    }
                    let reference = reference.unwrap();
                    if let Err(e) = r {
                        return Err(Violation::new("C20.convert.err", format!("a well-formed MeCab model was rejected: {e}")));
                    }
                    ctx.state_changes += 1;
                    // ids emitted densely ascending
                    for (name, data, n) in [("bigram.right", &files[0], reference.right.len()), ("bigram.left", &files[1], reference.left.len())] {
                        let text = String::from_utf8_lossy(data);
                        let ids: Vec<String> = text.lines().map(|l| l.split('\t').next().unwrap_or("").to_string()).collect();
                        let want: Vec<String> = (1..n).map(|i| i.to_string()).collect();
                        if ids != want {
                            return Err(Violation::new("C20.ids", format!("{name} lists ids {ids:?}, expected {want:?}")));
                        }
                    }
                    // compile with the raw connector and a trivial lexicon
                    let mut f = BTreeMap::new();
                    f.insert("bigram.right".to_string(), files[0].clone());
                    f.insert("bigram.left".to_string(), files[1].clone());
                    f.insert("bigram.cost".to_string(), files[2].clone());
                    f.insert("lex.csv".to_string(), b"a,1,1,0,x\n".to_vec());
                    f.insert("char.def".to_string(), b"DEFAULT 0 1 0\n".to_vec());
                    f.insert("unk.def".to_string(), b"DEFAULT,0,0,0,u\n".to_vec());
                    let d = match build_dict(&f, CONN_RAW, 0, None, ctx) {
                        Ok(Ok(d)) => d,
                        Ok(Err(e)) => return Err(Violation::new("C20.compile.err", format!("the generated bigram files do not compile: {e}"))),
                        Err(p) => return Err(panic_violation("C20.compile", "compiling the generated bigram files", &p)),
                    };
                    let (nr, nl) = (d.verif_num_right(), d.verif_num_left());
                    if nr != reference.right.len() || nl != reference.left.len() {
                        return Err(Violation::new(
                            "C20.dims",
                            format!("compiled dictionary has {nr}x{nl} ids, the model defines {}x{}", reference.right.len(), reference.left.len()),
                        ));
                    }
                    let mut nonzero = 0;
                    for r in 1..nr {
                        for l in 1..nl {
                            let got = catch(|| d.verif_conn_cost(r as u16, l as u16))
                                .map_err(|p| panic_violation("C20.cost", "connection-cost lookup", &p))?;
                            let want = reference.expected(r, l, factor);
                            if i64::from(got) != want {
                                return Err(Violation::new(
                                    "C20.cost",
                                    format!(
                                        "cost(right={r}, left={l}) = {got} from the generated files, the MeCab model gives {want} (right features {:?}, left features {:?}, factor {factor})",
                                        reference.right[r], reference.left[l]
                                    ),
                                ));
                            }
                            if want != 0 {
                                nonzero += 1;
                            }
                        }
                    }
                    if nonzero > 0 {
                        ctx.count("probe.nonzero_costs_compared");
                    }
                    if reference.templates.iter().any(|(a, b)| a.contains('?') || b.contains('?')) {
                        ctx.count("probe.optional_reference_template");
                    }
                    ctx.event("convert", &format!("{nr}x{nl} ids, all non-zero id pairs equal the model"));
                    emitted = Some(files);
                }
                "SinkFault" => {
                    let Some(files) = emitted.as_ref() else { continue };
                    let sink = op.str(0);
                    let Some(si) = SINKS.iter().position(|s| *s == sink) else { continue };
                    let len = files[si].len();
                    if len == 0 {
                        continue;
                    }
                    let k = ((op.num(0) as u128 * len as u128) >> 32) as u64;
                    let f = Fault {
                        hard_at: Some(k.min(len as u64 - 1)),
                        hard_kind: op.num(1) as u8,
                        ..Default::default()
                    };
                    let op2 = Op::new("x").fault(sink, f);
                    let (r, out, _) = run_conversion(plan, Some(&op2), ctx);
                    ctx.observations += 1;
                    match r {
                        Ok(Err(_)) => ctx.event(&op.brief(), "Err"),
                        Ok(Ok(())) => {
                            return Err(Violation::new(
                                "C20.sink_fault.ok",
                                format!(
                                    "generate_bigram_info returned Ok although the {sink} sink failed at byte {k} of {len}: {} of {len} bytes reached it",
                                    out[si].len()
                                ),
                            ))
                        }
                        Err(p) => return Err(panic_violation("C20.sink_fault", &op.brief(), &p)),
                    }
                }
                "ReaderFault" => {
                    if emitted.is_none() {
                        continue;
                    }
                    let rd = op.str(0);
                    if !READERS.contains(&rd) {
                        continue;
                    }
                    let len = plan.file(rd).len();
                    if len == 0 {
                        continue;
                    }
                    let k = ((op.num(0) as u128 * len as u128) >> 32) as u64;
                    let f = Fault {
                        hard_at: Some(k.min(len as u64 - 1)),
                        hard_kind: op.num(1) as u8,
                        ..Default::default()
                    };
                    let op2 = Op::new("x").fault(rd, f);
                    let (r, _, reader_hard) = run_conversion(plan, Some(&op2), ctx);
                    ctx.observations += 1;
                    match r {
                        Ok(Err(_)) => ctx.event(&op.brief(), "Err"),
                        Ok(Ok(())) if reader_hard => {
                            return Err(Violation::new(
                                "C20.reader_fault.ok",
                                format!("generate_bigram_info returned Ok although reading {rd} failed at byte {k} of {len}"),
                            ))
                        }
                        Ok(Ok(())) => {}
                        Err(p) => return Err(panic_violation("C20.reader_fault", &op.brief(), &p)),
                    }
                }
                other => return Err(Violation::new("C20.plan", format!("unknown op {other}"))),
            }
        }
        Ok(())
    }

    fn nontrivial(&self, _plan: &Plan, ctx: &Ctx) -> bool {
        ctx.observations >= 1
    }

    fn describe(&self) -> ScenarioInfo {
        ScenarioInfo {
            level: "exploration",
            rule: "one seeded run = a seeded MeCab model description (1-6 BIGRAM templates over %L[i], %R[i], %L?[i], %R?[i] and literal text; right-id.def/left-id.def with 2-8 dense ids, id 0 = BOS/EOS; model.def with positive, negative, zero, truncating-to-zero, unlisted, unmatched and slash-less lines plus header lines; cost factors 1-800), in 30% of the runs one of the statement's error worlds (gap among the ids, id 0 not BOS/EOS, malformed id line - must return Err). generate_bigram_info runs with short/EINTR readers and sinks; its three outputs are compiled with the raw connector and, for every pair of non-zero ids, the connection cost must equal the harness-side expansion of the model: sum over applicable templates of -trunc(w*factor) of the line 'Lexp/Rexp'; ids must be emitted densely ascending; a hard fault at a seeded offset of a sink must give Err (never Ok with a short file), a fired hard reader fault must give Err. Added later: id tables listed in shuffled order (1 in 4), rows ending in a comma (1 world in 8), cost factors up to 100000, two optional references on one side and a non-optional twin template expanding to the same text; sinks by &mut or owned BufWriter/LineWriter. Round 5: template literals containing '#' and ';', feature values with a blank inside. Round 6: references of the other side's kind in a template (literal text), id-0 lines that only start like BOS/EOS (rejected), a quoted \"BOS/EOS\" (accepted). distinct_nontrivial = distinct plan hashes of runs with >= 1 comparison",
            assumptions: vec![
                "template shapes are restricted to those the MeCab documentation defines unambiguously; feature values contain no '/'",
                "a table without id 0 is outside the statement and not generated",
            ],
            real: vec!["vibrato::mecab::generate_bigram_info, TrainerConfig::parse_feature_config, FeatureExtractor, RawConnector builder"],
            stub: vec!["the four input and three output files (FaultyReader/FaultySink over memory)"],
            probes: vec![
                "probe.error_world_rejected",
                "probe.nonzero_costs_compared",
                "probe.optional_reference_template",
                "fault.short_transfer",
                "fault.interrupted",
                "fault.hard",
            ],
        }
    }

    fn extra(&self, _tier: Tier, seed: u64, rep: &mut crate::runner::BatchReport) {
        // every byte offset of every sink for a few models
        let mut points = 0u64;
        let mut models = 0;
        for idx in 0..40u64 {
            if models >= 6 {
                break;
            }
            let mut rng = Rng::new(crate::rng::run_seed(seed, "C20-enum", idx));
            let mut plan = self.plan(&mut rng, Tier::Quick, seed, u64::MAX - idx);
            if plan.param("error_world") != 0 {
                continue;
            }
            plan.ops.truncate(1);
            plan.ops[0].faults.clear();
            crate::hashseam::begin_plan(&plan);
            let mut ctx = Ctx::new(false);
            let (r, files, _) = run_conversion(&plan, None, &mut ctx);
            if !matches!(r, Ok(Ok(()))) {
                continue;
            }
            models += 1;
            for (si, sink) in SINKS.iter().enumerate() {
                let len = files[si].len();
                for k in 0..len {
                    for kind in [0u8, 2] {
                        let f = Fault {
                            hard_at: Some(k as u64),
                            hard_kind: kind,
                            ..Default::default()
                        };
                        let op = Op::new("x").fault(sink, f);
                        let (r, _, _) = run_conversion(&plan, Some(&op), &mut ctx);
                        points += 1;
                        if !matches!(r, Ok(Err(_))) {
                            let mut fr = (((k as u128) << 32) / len as u128) as i64;
                            while ((fr as u128 * len as u128) >> 32) as usize != k {
                                fr += 1;
                            }
                            plan.ops.push(Op::new("SinkFault").s(sink).n(&[fr, i64::from(kind)]));
                            rep.extra_failure = Some((
                                plan,
                                Violation::new(
                                    "C20.sink_fault.ok",
                                    format!("generate_bigram_info did not return Err although the {sink} sink failed at byte {k} of {len}"),
                                ),
                            ));
                            return;
                        }
                    }
                }
            }
        }
        rep.extra_evaluations += points;
        rep.extra_distinct += points;
        rep.extra.insert(
            "enumerated_sink_fault_points".into(),
            crate::json::J::s(&format!("{points} (every byte offset of the three sinks x {{error, device full}} for {models} models)")),
        );
    }
}
