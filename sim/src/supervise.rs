//! Crash containment. Code under test can take the whole process down without unwinding: an
//! allocation of a garbage length aborts, unbounded recursion overflows the stack, the kernel kills a
//! process that eats the memory. A simulator that dies with its subject reports nothing. So the
//! simulator proper runs in a *child* process; the parent only waits. The child keeps, in a small
//! file mapped shared, which run each worker thread is executing (slot 0: what the main thread is
//! doing - minimising run N, or the enumeration step). If the child dies abnormally the parent reads
//! the slots, re-executes each in-flight run in a child of its own (`--exec-run N`) to find the one
//! that kills the process, writes that run's plan as the replay file and reports the violation
//! (oracle `<property>.process_abort`). A replay is supervised in the same way, so replaying such a
//! file reports the abort again instead of dying. Nothing here influences what a run does.

use std::os::unix::process::ExitStatusExt;
use std::sync::atomic::{AtomicPtr, AtomicU64, Ordering};

use crate::core::{Scenario, Tier, Violation};
use crate::rng::{run_seed, Rng};

pub const ENV_CHILD: &str = "VSIM_CHILD";
const ENV_SLOTS: &str = "VSIM_SLOTS";
pub const NONE: u64 = u64::MAX;
/// Slot 0 while the enumeration step (`Scenario::extra`) runs.
pub const EXTRA: u64 = u64::MAX - 1;
const N_SLOTS: usize = 257;

static SLOTS: AtomicPtr<AtomicU64> = AtomicPtr::new(std::ptr::null_mut());

/// Child side: maps the slot file named by the parent (no-op without a parent).
pub fn child_init() {
    let Ok(path) = std::env::var(ENV_SLOTS) else { return };
    let Ok(cpath) = std::ffi::CString::new(path) else { return };
    // SAFETY: plain libc calls; the mapping lives until the process ends and is only accessed
    // through atomics.
    unsafe {
        let fd = libc::open(cpath.as_ptr(), libc::O_RDWR);
        if fd < 0 {
            return;
        }
        let p = libc::mmap(
            std::ptr::null_mut(),
            N_SLOTS * 8,
            libc::PROT_READ | libc::PROT_WRITE,
            libc::MAP_SHARED,
            fd,
            0,
        );
        libc::close(fd);
        if p != libc::MAP_FAILED {
            SLOTS.store(p as *mut AtomicU64, Ordering::Release);
        }
    }
}

/// Child side: records what slot `i` (0 = main thread, 1.. = worker threads) is executing.
pub fn set(i: usize, v: u64) {
    let p = SLOTS.load(Ordering::Acquire);
    if !p.is_null() && i < N_SLOTS {
        // SAFETY: `p` points to N_SLOTS mapped u64 cells.
        unsafe { (*p.add(i)).store(v, Ordering::Relaxed) };
    }
}

fn how(st: &std::process::ExitStatus) -> String {
    match (st.code(), st.signal()) {
        (_, Some(6)) => "killed by signal 6 (abort: e.g. a failed allocation or a double panic)".into(),
        (_, Some(11)) => "killed by signal 11 (segmentation fault: e.g. stack overflow)".into(),
        (_, Some(9)) => "killed by signal 9 (e.g. out of memory)".into(),
        (_, Some(s)) => format!("killed by signal {s}"),
        (Some(c), None) => format!("exit code {c}"),
        (None, None) => "unknown status".into(),
    }
}

fn child(args: &[String], slots: Option<&str>) -> std::io::Result<std::process::ExitStatus> {
    let exe = std::env::current_exe()?;
    let mut c = std::process::Command::new(exe);
    c.args(args).env(ENV_CHILD, "1");
    match slots {
        Some(p) => c.env(ENV_SLOTS, p),
        None => c.env_remove(ENV_SLOTS),
    };
    c.status()
}

/// Parent side. `args` are the simulator's own arguments (a batch or a replay).
pub fn parent(scen: &dyn Scenario, tier: Tier, seed: u64, replay: Option<&str>, args: &[String]) -> i32 {
    parent_attempt(scen, tier, seed, replay, args, 0)
}

/// One supervised batch. A death of the simulator process that no in-flight run reproduces in a
/// fresh process is not attributable to a plan (every plan is a pure function of the seed): the
/// batch is executed once more (`attempt` 0 -> 1) before it is called a harness error. Seen once, in
/// the last session, for C15 (SIGSEGV; the trainer scenarios leave a helper thread behind when argmin
/// does not terminate within its budget, which is the suspected cause); a death that a run reproduces
/// is reported as a violation as before.
fn parent_attempt(scen: &dyn Scenario, tier: Tier, seed: u64, replay: Option<&str>, args: &[String], attempt: u32) -> i32 {
    let prop = scen.id();
    let dir = format!("{}/logs", crate::runner::verif_root());
    let _ = std::fs::create_dir_all(&dir);
    let path = format!("{dir}/inflight-{}.bin", std::process::id());
    let init: Vec<u8> = std::iter::repeat(0xFFu8).take(N_SLOTS * 8).collect();
    let slots_ok = std::fs::write(&path, &init).is_ok();
    let st = match child(args, slots_ok.then_some(path.as_str())) {
        Ok(st) => st,
        Err(e) => {
            println!("HARNESS-ERROR: cannot start the simulator process: {e}");
            return 2;
        }
    };
    let slots: Vec<u64> = std::fs::read(&path)
        .unwrap_or_default()
        .chunks_exact(8)
        .map(|c| u64::from_le_bytes(c.try_into().unwrap()))
        .collect();
    let _ = std::fs::remove_file(&path);
    match (st.code(), st.signal()) {
        (Some(c @ 0..=2), None) => return c,
        (Some(101), None) => {
            println!("HARNESS-ERROR: the simulator panicked outside a guarded call");
            return 2;
        }
        _ => {}
    }
    let how_died = how(&st);
    if let Some(file) = replay {
        println!("REPLAY-FAILS oracle={prop}.process_abort detail=the process executing the replay died: {how_died}");
        println!("VIOLATION property={prop} replay={file}");
        return 1;
    }
    let main = slots.first().copied().unwrap_or(NONE);
    if main == EXTRA {
        let v = Violation::new(
            &format!("{prop}.process_abort"),
            format!("the simulator process died during the enumeration step: {how_died}"),
        );
        let file = crate::runner::write_extra_only_replay(prop, seed, tier, &v);
        println!("violation in the enumeration step: oracle={} detail={}", v.oracle, v.detail);
        println!("VIOLATION property={prop} replay={file}");
        return 1;
    }
    let mut cands: Vec<u64> = slots.iter().copied().filter(|&v| v != NONE && v != EXTRA).collect();
    cands.sort_unstable();
    cands.dedup();
    for &run in &cands {
        let a: Vec<String> = [
            "--property", prop, "--tier", tier.name(), "--seed", &seed.to_string(), "--exec-run", &run.to_string(),
        ]
        .iter()
        .map(|s| s.to_string())
        .collect();
        let Ok(st) = child(&a, None) else { continue };
        match (st.code(), st.signal()) {
            (Some(0), None) => continue,
            (Some(c @ 1..=2), None) => return c, // the child reported an ordinary violation (or error) of that run
            _ => {
                let mut rng = Rng::new(run_seed(seed, prop, run));
                let plan = scen.plan(&mut rng, tier, seed, run);
                let v = Violation::new(
                    &format!("{prop}.process_abort"),
                    format!("the process died while executing this run: {}", how(&st)),
                );
                let file = crate::runner::write_replay(prop, &format!("{seed}-{run}-abort"), &plan, &v, &[]);
                println!("violation in run {run}: oracle={} detail={}", v.oracle, v.detail);
                println!("VIOLATION property={prop} replay={file}");
                return 1;
            }
        }
    }
    if attempt == 0 {
        println!("NOTE: the simulator process died ({how_died}); none of the in-flight runs {cands:?} reproduces it in a fresh process; the (deterministic) batch is executed once more");
        return parent_attempt(scen, tier, seed, replay, args, 1);
    }
    println!("HARNESS-ERROR: the simulator process died ({how_died}) twice and none of the in-flight runs {cands:?} reproduces it");
    2
}
