//! Building dictionaries from a plan's files (through fault-injecting readers) and observing
//! them: full token tuples for probe sentences x option sets, and every connection cost.

use std::collections::BTreeMap;

use vibrato::dictionary::LexType;
use vibrato::{Dictionary, SystemDictionaryBuilder, Tokenizer};

use crate::core::{catch, Ctx, PanicInfo, Violation};
use crate::io::FaultyReader;
use crate::plan::{Fault, Op};
use crate::world::{CONN_DUAL, CONN_MATRIX};

#[derive(Clone, PartialEq, Eq, Debug)]
pub struct Tok {
    pub surface: String,
    pub cs: usize,
    pub ce: usize,
    pub bs: usize,
    pub be: usize,
    pub feature: String,
    pub lex: u8,
    pub left: u16,
    pub right: u16,
    pub wcost: i16,
    pub tcost: i32,
}

impl Tok {
    pub fn brief(&self) -> String {
        format!(
            "{:?}[{}..{}|{}..{}] {:?} lex={} l={} r={} w={} t={}",
            self.surface,
            self.cs,
            self.ce,
            self.bs,
            self.be,
            self.feature,
            self.lex,
            self.left,
            self.right,
            self.wcost,
            self.tcost
        )
    }
}

pub fn lex_code(t: LexType) -> u8 {
    match t {
        LexType::System => 0,
        LexType::User => 1,
        LexType::Unknown => 2,
    }
}

pub fn read_tokens(worker: &vibrato::tokenizer::worker::Worker) -> Vec<Tok> {
    let mut v = Vec::with_capacity(worker.num_tokens());
    for i in 0..worker.num_tokens() {
        let t = worker.token(i);
        let rc = t.range_char();
        let rb = t.range_byte();
        v.push(Tok {
            surface: t.surface().to_string(),
            cs: rc.start,
            ce: rc.end,
            bs: rb.start,
            be: rb.end,
            feature: t.feature().to_string(),
            lex: lex_code(t.lex_type()),
            left: t.left_id(),
            right: t.right_id(),
            wcost: t.word_cost(),
            tcost: t.total_cost(),
        });
    }
    v
}

#[derive(Clone, Copy, Debug, PartialEq, Eq)]
pub struct OptSet {
    pub ignore_space: bool,
    pub max_grouping_len: usize,
}

/// The option sets every observation covers.
pub fn option_sets(has_space: bool) -> Vec<OptSet> {
    let mut v = vec![
        OptSet {
            ignore_space: false,
            max_grouping_len: 0,
        },
        OptSet {
            ignore_space: false,
            max_grouping_len: 1,
        },
        OptSet {
            ignore_space: false,
            max_grouping_len: 3,
        },
    ];
    if has_space {
        v.push(OptSet {
            ignore_space: true,
            max_grouping_len: 0,
        });
        v.push(OptSet {
            ignore_space: true,
            max_grouping_len: 2,
        });
        v.push(OptSet {
            ignore_space: true,
            max_grouping_len: 24,
        });
    }
    v
}

/// Builds a tokenizer with the option set (the caller guarantees SPACE exists when asked for).
pub fn make_tokenizer(dict: Dictionary, o: OptSet) -> Tokenizer {
    let t = Tokenizer::new(dict).max_grouping_len(o.max_grouping_len);
    if o.ignore_space {
        match t.ignore_space(true) {
            Ok(t) => t,
            Err(_) => unreachable!("ignore_space requested without SPACE"),
        }
    } else {
        t
    }
}

#[derive(Clone, PartialEq, Eq, Debug, Default)]
pub struct Obs {
    /// tokens[opt][sentence]
    pub tokens: Vec<Vec<Vec<Tok>>>,
    pub num_left: usize,
    pub num_right: usize,
    /// costs[r * num_left + l]
    pub costs: Vec<i32>,
}

pub fn has_space(dict: &Dictionary) -> bool {
    dict.verif_category_names().iter().any(|c| c == "SPACE")
}

/// Observes a dictionary; gives it back together with the observation (or the panic).
pub fn observe(
    dict: Dictionary,
    sentences: &[String],
    with_costs: bool,
) -> (Dictionary, Result<Obs, PanicInfo>) {
    let opts = option_sets(has_space(&dict));
    let mut obs = Obs::default();
    let mut dict = dict;
    if with_costs {
        let r = catch(|| {
            let nl = dict.verif_num_left();
            let nr = dict.verif_num_right();
            let mut costs = Vec::with_capacity(nl * nr);
            for r in 0..nr {
                for l in 0..nl {
                    costs.push(dict.verif_conn_cost(r as u16, l as u16));
                }
            }
            (nl, nr, costs)
        });
        match r {
            Ok((nl, nr, costs)) => {
                obs.num_left = nl;
                obs.num_right = nr;
                obs.costs = costs;
            }
            Err(p) => return (dict, Err(p)),
        }
    }
    for o in opts {
        let tokenizer = make_tokenizer(dict, o);
        let r = catch(|| {
            let mut per_sentence = Vec::with_capacity(sentences.len());
            for s in sentences {
                let mut w = tokenizer.new_worker();
                w.reset_sentence(s);
                w.tokenize();
                per_sentence.push(read_tokens(&w));
            }
            per_sentence
        });
        dict = tokenizer.verif_into_dictionary();
        match r {
            Ok(v) => obs.tokens.push(v),
            Err(p) => return (dict, Err(p)),
        }
    }
    (dict, Ok(obs))
}

/// Describes the first difference between two observations (None = equal).
pub fn diff_obs(a: &Obs, b: &Obs, sentences: &[String]) -> Option<String> {
    if a.num_left != b.num_left || a.num_right != b.num_right {
        return Some(format!(
            "dimensions differ: {}x{} vs {}x{}",
            a.num_right, a.num_left, b.num_right, b.num_left
        ));
    }
    for (i, (x, y)) in a.costs.iter().zip(&b.costs).enumerate() {
        if x != y {
            let nl = a.num_left.max(1);
            return Some(format!(
                "connection cost differs at (right={}, left={}): {} vs {}",
                i / nl,
                i % nl,
                x,
                y
            ));
        }
    }
    if a.tokens.len() != b.tokens.len() {
        return Some("number of option sets differs".into());
    }
    for (oi, (ta, tb)) in a.tokens.iter().zip(&b.tokens).enumerate() {
        for (si, (sa, sb)) in ta.iter().zip(tb).enumerate() {
            if sa != sb {
                let fa: Vec<String> = sa.iter().map(|t| t.brief()).collect();
                let fb: Vec<String> = sb.iter().map(|t| t.brief()).collect();
                return Some(format!(
                    "tokens differ for sentence {:?} (option set #{oi}): {:?} vs {:?}",
                    sentences.get(si),
                    fa,
                    fb
                ));
            }
        }
    }
    None
}

// ---------------------------------------------------------------------------------------------
// building

/// Compiles a dictionary from the named files through `FaultyReader`s whose fault plans come
/// from `op.faults[<file name>]`. `conn`: 0 matrix, 1 raw, 2 dual. Counts fired faults in `ctx`.
pub fn build_dict(
    files: &BTreeMap<String, Vec<u8>>,
    conn: i64,
    order_seed: u64,
    op: Option<&Op>,
    ctx: &mut Ctx,
) -> Result<Result<Dictionary, String>, PanicInfo> {
    let none = Fault::default();
    let fault = |name: &str| -> Fault {
        op.and_then(|o| o.faults.get(name).cloned())
            .unwrap_or_else(|| none.clone())
    };
    let empty: Vec<u8> = vec![];
    let file = |name: &str| -> &[u8] { files.get(name).unwrap_or(&empty).as_slice() };
    let f_lex = fault("lex.csv");
    let f_chr = fault("char.def");
    let f_unk = fault("unk.def");
    let mut r_lex = FaultyReader::new(file("lex.csv"), &f_lex);
    let mut r_chr = FaultyReader::new(file("char.def"), &f_chr);
    let mut r_unk = FaultyReader::new(file("unk.def"), &f_unk);
    let res;
    if conn == CONN_MATRIX {
        let f_mat = fault("matrix.def");
        let mut r_mat = FaultyReader::new(file("matrix.def"), &f_mat);
        res = catch(|| {
            SystemDictionaryBuilder::from_readers(&mut r_lex, &mut r_mat, &mut r_chr, &mut r_unk)
                .map_err(|e| e.to_string())
        });
        ctx.fired(&r_mat.fired);
    } else {
        let f_r = fault("bigram.right");
        let f_l = fault("bigram.left");
        let f_c = fault("bigram.cost");
        let mut r_r = FaultyReader::new(file("bigram.right"), &f_r);
        let mut r_l = FaultyReader::new(file("bigram.left"), &f_l);
        let mut r_c = FaultyReader::new(file("bigram.cost"), &f_c);
        vibrato::dictionary::verif_set_dual_order_seed(order_seed);
        res = catch(|| {
            SystemDictionaryBuilder::from_readers_with_bigram_info(
                &mut r_lex,
                &mut r_r,
                &mut r_l,
                &mut r_c,
                &mut r_chr,
                &mut r_unk,
                conn == CONN_DUAL,
            )
            .map_err(|e| e.to_string())
        });
        ctx.fired(&r_r.fired);
        ctx.fired(&r_l.fired);
        ctx.fired(&r_c.fired);
    }
    ctx.fired(&r_lex.fired);
    ctx.fired(&r_chr.fired);
    ctx.fired(&r_unk.fired);
    res
}

/// Builds from a plan's world files with no faults; valid worlds must compile, so a failure is
/// reported as a violation whose oracle id names the failure (and the panic site).
pub fn build_plain(
    prefix: &str,
    files: &BTreeMap<String, Vec<u8>>,
    conn: i64,
    order_seed: u64,
    ctx: &mut Ctx,
) -> Result<Dictionary, Violation> {
    match build_dict(files, conn, order_seed, None, ctx) {
        Ok(Ok(d)) => Ok(d),
        Ok(Err(e)) => Err(Violation::new(
            &format!("{prefix}.world.rejected"),
            format!("valid world rejected: {e}"),
        )),
        Err(p) => Err(crate::core::panic_violation(
            &format!("{prefix}.world"),
            "valid world panicked the builder",
            &p,
        )),
    }
}
