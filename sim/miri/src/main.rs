//! C04, sub-operation granularity: several real threads share one Tokenizer, each driving its own
//! Worker through a seeded history. Run under Miri (`cargo +nightly miri run -- <seed>`), whose
//! scheduler and address choices are functions of `-Zmiri-seed`: it preempts inside operations and
//! reports data races and undefined behaviour; the program itself reports tokens that differ from
//! those of a fresh single-threaded worker.
use vibrato::{SystemDictionaryBuilder, Tokenizer};

fn splitmix(x: &mut u64) -> u64 {
    *x = x.wrapping_add(0x9E37_79B9_7F4A_7C15);
    let mut z = *x;
    z = (z ^ (z >> 30)).wrapping_mul(0xBF58_476D_1CE4_E5B9);
    z = (z ^ (z >> 27)).wrapping_mul(0x94D0_49BB_1331_11EB);
    z ^ (z >> 31)
}

type Toks = Vec<(String, std::ops::Range<usize>, String, i32)>;

fn tokens(w: &vibrato::tokenizer::worker::Worker) -> Toks {
    w.token_iter()
        .map(|t| (t.surface().to_string(), t.range_char(), t.feature().to_string(), t.total_cost()))
        .collect()
}

fn main() {
    // the seed comes through argv (cargo-miri replays build-time environment variables)
    let seed: u64 = std::env::args().nth(1).and_then(|s| s.parse().ok()).unwrap_or(1);
    let lex = "京都,1,1,5,kyoto\n東京,1,2,7,tokyo\n東京都,2,1,9,tokyoto\n都,2,2,3,to\nab,1,1,4,ab\na,2,1,6,a\n";
    let matrix = "3 3\n0 1 1\n0 2 2\n1 0 1\n1 1 -3\n1 2 4\n2 0 2\n2 1 5\n2 2 -1\n";
    // ALPHA (U+0061..) and KANA (U+3061..) code points share their low byte: a cache or table keyed
    // by a truncated code point, shared between workers, would mix their categories up
    let chardef = "DEFAULT 0 1 0\nSPACE 0 1 0\nALPHA 1 1 2\nKANA 0 1 3\n0x0020 SPACE\n0x0061..0x007A ALPHA\n0x3041..0x3096 KANA\n";
    let unk = "DEFAULT,1,1,100,unk\nSPACE,2,2,50,sp\nALPHA,1,2,20,alpha\nKANA,2,1,30,kana\n";
    let dict = SystemDictionaryBuilder::from_readers(lex.as_bytes(), matrix.as_bytes(), chardef.as_bytes(), unk.as_bytes()).unwrap();
    let tokenizer = Tokenizer::new(dict).ignore_space(seed % 2 == 0).unwrap().max_grouping_len((seed % 3) as usize);
    let pool = ["京都東京都", "", "ab a abc", "ちぢっabc", "  ", "a", "都都都", "abab東京", "っちぢ京", "abcちぢっ"];
    // expected results: a fresh worker per sentence, single-threaded
    let expected: Vec<Toks> = pool
        .iter()
        .map(|s| {
            let mut w = tokenizer.new_worker();
            w.reset_sentence(s);
            w.tokenize();
            tokens(&w)
        })
        .collect();
    let mut x = seed;
    let latin = [2usize, 5, 7, 2, 9];
    let kana = [3usize, 8, 9, 3, 8];
    let programs: Vec<Vec<usize>> = (0..3)
        .map(|t| {
            (0..5)
                .map(|k| {
                    let r = splitmix(&mut x);
                    if r % 4 == 0 {
                        (r >> 8) as usize % pool.len()
                    } else if t % 2 == 0 {
                        latin[(k + (r >> 8) as usize) % 5]
                    } else {
                        kana[(k + (r >> 8) as usize) % 5]
                    }
                })
                .collect()
        })
        .collect();
    let bad = std::sync::atomic::AtomicBool::new(false);
    let reports: std::sync::Mutex<Vec<String>> = std::sync::Mutex::new(vec![]);
    std::thread::scope(|sc| {
        for prog in &programs {
            let tokenizer = &tokenizer;
            let expected = &expected;
            let bad = &bad;
            let reports = &reports;
            sc.spawn(move || {
                let mut w = tokenizer.new_worker();
                for (k, &i) in prog.iter().enumerate() {
                    w.reset_sentence(pool[i]);
                    w.tokenize();
                    if k % 2 == 1 {
                        w.tokenize(); // repeated tokenize
                    }
                    if tokens(&w) != expected[i] {
                        reports.lock().unwrap().push(format!(
                            "MISMATCH seed={seed} sentence={:?}: shared-tokenizer worker gives {:?}, a fresh single-threaded worker {:?}",
                            pool[i],
                            tokens(&w),
                            expected[i]
                        ));
                        bad.store(true, std::sync::atomic::Ordering::Relaxed);
                    }
                }
            });
        }
    });
    if bad.load(std::sync::atomic::Ordering::Relaxed) {
        for r in reports.lock().unwrap().iter().take(3) {
            eprintln!("{r}");
        }
        std::process::exit(1);
    }
    println!("miri scenario seed={seed}: 3 threads x 5 sentences, all equal to fresh-worker results");
}
